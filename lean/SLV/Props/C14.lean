/-
  C14 — Binomial deduction.
  "For an antecedent whose projected probability and base rate lie strictly between 0 and 1 and a
   consequent base rate strictly between 0 and 1, binomial deduction returns a well-formed opinion
   carrying that base rate whose projected probability is P(x)P(y|x) + P(not x)P(y|not x).  The result is
   unchanged when x and not-x are exchanged consistently (antecedent negated, the two conditionals
   swapped), is negated when y and not-y are exchanged (conditionals and base rate negated), and for a
   dogmatic antecedent is the belief-weighted mixture of the two conditionals."

  All statements are about the executable model `BOp.deduce` / `BOp.deduceK` (SLV/Model/Bi.lean,
  src/bi.rs:259-346) at the exact semantics `XQ f`, applied to lifted rational inputs
  `liftB b d u a = ⟨fin b, fin d, fin u, fin a⟩`, `liftS b d u = (fin b, fin d, fin u)`.

  Setting: `Dom14 b d u a b0 d0 u0 b1 d1 u1 ay` (SLV/Refine/C14Lemmas.lean) — antecedent `(b,d,u;a)`
  well-formed with `0 < a < 1`, `0 < P := b + a u < 1`; conditionals `(b0,d0,u0)` (y|x) and
  `(b1,d1,u1)` (y|¬x) well-formed; `0 < ay < 1`.

  `mixq b d u a x0 x1 = b x0 + d x1 + u (x0 a + x1 (1-a))` is `bi`/`di`/`ui` of the Rust text
  (`= P x0 + (1-P) x1`, `C14_mix`).  `Kq u a b0 d0 b1 d1 ay` is the closed form of the correction term:
  0 in Case I, `u·min (a(b0-b1)/ay) ((1-a)(d1-d0)/(1-ay))` in Case II,
  `u·min ((1-a)(b1-b0)/ay) (a(d0-d1)/(1-ay))` in Case III.

  The operator (repair b163717 of the crate) computes exactly that: `k = 0` in Case I, `k = ka.min(kb)` in Case II / III with
  `ka = a u (b0-b1)/ay`, `kb = (1-a) u (d1-d0)/(1-ay)` (mirrored in Case III).  The only divisors are `ay` and `1 - ay`, so
  the lift needs `0 < ay < 1` and NOTHING about the antecedent: `C14_closed_form_closed` / `C14_wf_closed` hold for every
  well-formed antecedent (absolute, vacuous, `a ∈ {0,1}`, `P ∈ {0,1}` included), which is more than the property asks for;
  the `Dom14` statements below are kept as they were.  Non-negativity of the result is immediate from `K ≤ ka`, `K ≤ kb`
  and the cancellation identities `bI - b1 = P (b0-b1)`, `dI - d0 = (1-P)(d1-d0)`, .. (`C14_cancel`).

  Justification of the repair: the operator that was in the crate before (`Pinned.deduceKNineBranch`: Case I, the tie arm
  of repair 4d5bbb1, and eight closed forms II.A.1 .. III.B.2 selected by the comparisons `pyx > r`, `P > a`) returns the
  SAME correction term on the open domain, ties included: `C14_K_eq_nine_branch`, `C14_eq_nine_branch` (each of the old
  branches is lifted in SLV/Refine/C14Nine.lean: sub-branch 1 vs 2 only changes the textual form, `P` or `1-P` cancels;
  sub-case A ⇔ `ka ≤ kb`).  In floating point they differ: the old closed forms contain the cancelling differences
  `bI - b1`, .., quotients of two of them and rounding-decided sub-case selections, and reject results on plain decimal
  operands (`SLV.Props.Pinned.C14_pinned_deduce_decimal_panics`).

  Tags: `.I`, and in Case II / III the bound that `min` returned: `.IIA`/`.IIIA` = `ka` (belief bound, taken when
  `ka ≤ kb` ⇔ `pyx ≤ r`), `.IIB`/`.IIIB` = `kb` (taken when `kb < ka` ⇔ `pyx > r`, which needs `0 < u`: for a dogmatic
  antecedent both bounds are 0 and `min` returns its left operand): `C14_nonneg_IIA/IIB/IIIA/IIIB` (these replace the eight
  theorems `C14_nonneg_IIA1 .. IIIB2` of the nine-branch operator).

  Ties: `b0 = b1` or `d0 = d1` outside Case I makes one of the two bounds 0 and the other non-negative, so `k = 0`
  (`C14_tie`, any well-formed antecedent, `0 < ay < 1`).  The tag of the former tie arm (`.Tie`) no longer occurs, and the
  statement no longer covers `ay ∈ {0, 1}` (outside the property's domain): there the vanishing bound is 0/0 = NaN, which
  `f64::min` skips, and `k` is the other bound -- `C14_tie_boundary_ay1` (accepted and well-formed, but `k ≠ 0`).

  On the boundary `P = 0` (outside the property's domain) the nine-branch operator evaluated 0/0 and rejected
  (`SLV.Props.Pinned.C14_pinned_boundary_P0_rejected`); the current operator accepts (`C14_boundary_P0_accepted`).

  Since repair cf81fd9 the operator clamps `b = bI - ay k` and `d = dI - (1-ay) k` at zero before the renormalisation.  On
  well-formed operands both are `≥ 0` (`res_nonneg`), the clamp is the identity in the lift (`deduce_fin_of_K`) and every
  statement below is unchanged.  What the clamp guarantees for ALL operands: `C14_masses_nonneg_gen` (§5b).

  The formerly failing Case III input of the pinned tree is `SLV.Props.Pinned.C14_repaired_accepts`
  (SLV/Props/Pinned.lean); it lies in `Dom14` and is covered by `C14_closed_form` (see `C14_repaired`).
-/
import SLV.Refine.C14Lemmas
import SLV.Refine.C14Nine
import SLV.Model.Pinned

namespace SLV.Props.C14
open SLV Scalar
open SLV.Props.C10 (BWF)

variable {f : Fmt} {b d u a b0 d0 u0 b1 d1 u1 ay : ℚ}

/-- the two bounds of Case II and of Case III (closed forms of `k` when that bound is the smaller one) -/
local notation "K_IIA" => (a * u * (b0 - b1) / ay)
local notation "K_IIB" => ((1 - a) * u * (d1 - d0) / (1 - ay))
local notation "K_IIIA" => ((1 - a) * u * (b1 - b0) / ay)
local notation "K_IIIB" => (a * u * (d0 - d1) / (1 - ay))

/-! ### 0. the closed form -/

/-- `bi`, `di`, `ui` are the `P`-weighted mixtures of the conditionals' components -/
theorem C14_mix (hs : b + d + u = 1) (x0 x1 : ℚ) :
    mixq b d u a x0 x1 = (b + a * u) * x0 + (1 - (b + a * u)) * x1 :=
  mixq_eq hs x0 x1

/-- Lift: on the open domain every division in `deduceK` has a non-zero divisor and the correction term
    is the finite value `Kq` — whatever branch is taken. -/
theorem C14_K_lift (h : Dom14 b d u a b0 d0 u0 b1 d1 u1 ay) :
    (BOp.deduceK (liftB (f := f) b d u a) (liftS b0 d0 u0) (liftS b1 d1 u1) (XQ.fin ay)).1
      = XQ.fin (Kq u a b0 d0 b1 d1 ay) :=
  deduceK_fst h

/-- Master statement: on the open domain `deduce` is accepted by the checked constructor (≙ the Rust
    `new` does not panic) and returns `(bI - ay K, dI - (1-ay) K, uI + K; ay)` with `K = Kq`. -/
theorem C14_closed_form (h : Dom14 b d u a b0 d0 u0 b1 d1 u1 ay) :
    (BOp.deduce (liftB (f := f) b d u a) (liftS b0 d0 u0) (liftS b1 d1 u1) (XQ.fin ay)).1
      = .ok (liftB (mixq b d u a b0 b1 - ay * Kq u a b0 d0 b1 d1 ay)
          (mixq b d u a d0 d1 - (1 - ay) * Kq u a b0 d0 b1 d1 ay)
          (mixq b d u a u0 u1 + Kq u a b0 d0 b1 d1 ay) ay) := by
  rw [deduce_ok h]

/-- … and that result is a well-formed binomial opinion (with `0 ≤ K`) -/
theorem C14_wf (h : Dom14 b d u a b0 d0 u0 b1 d1 u1 ay) :
    BWF (mixq b d u a b0 b1 - ay * Kq u a b0 d0 b1 d1 ay)
      (mixq b d u a d0 d1 - (1 - ay) * Kq u a b0 d0 b1 d1 ay)
      (mixq b d u a u0 u1 + Kq u a b0 d0 b1 d1 ay) ay ∧ 0 ≤ Kq u a b0 d0 b1 d1 ay :=
  ⟨res_bwf h.x h.c0 h.c1 h.hy0 h.hy1, Kq_nonneg h.x.ha0 h.x.ha1 h.x.hu h.hy0 h.hy1⟩

/-- Closed-domain lift (stronger than the property asks for): `0 ≤ u` and `0 < ay < 1` suffice for the correction term -/
theorem C14_K_lift_closed (hu : 0 ≤ u) (hy0 : 0 < ay) (hy1 : ay < 1) :
    (BOp.deduceK (liftB (f := f) b d u a) (liftS b0 d0 u0) (liftS b1 d1 u1) (XQ.fin ay)).1
      = XQ.fin (Kq u a b0 d0 b1 d1 ay) :=
  deduceK_fst' hu hy0 hy1

/-- Closed-domain master statement: EVERY well-formed antecedent (absolute, dogmatic, vacuous, `a ∈ {0,1}`, `P ∈ {0,1}`),
    well-formed conditionals, `0 < ay < 1`: accepted, closed form. -/
theorem C14_closed_form_closed (hx : BWF b d u a) (h0 : SWF3 b0 d0 u0) (h1 : SWF3 b1 d1 u1)
    (hy0 : 0 < ay) (hy1 : ay < 1) :
    (BOp.deduce (liftB (f := f) b d u a) (liftS b0 d0 u0) (liftS b1 d1 u1) (XQ.fin ay)).1
      = .ok (liftB (mixq b d u a b0 b1 - ay * Kq u a b0 d0 b1 d1 ay)
          (mixq b d u a d0 d1 - (1 - ay) * Kq u a b0 d0 b1 d1 ay)
          (mixq b d u a u0 u1 + Kq u a b0 d0 b1 d1 ay) ay) := by
  rw [deduce_ok' hx h0 h1 hy0 hy1]

/-- … and that result is well-formed -/
theorem C14_wf_closed (hx : BWF b d u a) (h0 : SWF3 b0 d0 u0) (h1 : SWF3 b1 d1 u1)
    (hy0 : 0 < ay) (hy1 : ay < 1) :
    BWF (mixq b d u a b0 b1 - ay * Kq u a b0 d0 b1 d1 ay)
      (mixq b d u a d0 d1 - (1 - ay) * Kq u a b0 d0 b1 d1 ay)
      (mixq b d u a u0 u1 + Kq u a b0 d0 b1 d1 ay) ay ∧ 0 ≤ Kq u a b0 d0 b1 d1 ay :=
  ⟨res_bwf hx h0 h1 hy0 hy1, Kq_nonneg hx.ha0 hx.ha1 hx.hu hy0 hy1⟩

/-! ### 0b. the repair b163717 is an identity in exact arithmetic -/

/-- The cancellation identities behind `K = min(ka, kb)`: with `P = b + a u`,
    `bI - b1 = P (b0 - b1)`, `dI - d0 = (1-P)(d1 - d0)`, `bI - b0 = (1-P)(b1 - b0)`, `dI - d1 = P (d0 - d1)`. -/
theorem C14_cancel (hs : b + d + u = 1) :
    mixq b d u a b0 b1 - b1 = (b + a * u) * (b0 - b1) ∧
    mixq b d u a d0 d1 - d0 = (1 - (b + a * u)) * (d1 - d0) ∧
    mixq b d u a b0 b1 - b0 = (1 - (b + a * u)) * (b1 - b0) ∧
    mixq b d u a d0 d1 - d1 = (b + a * u) * (d0 - d1) := by
  rw [mixq_eq hs, mixq_eq hs]
  refine ⟨?_, ?_, ?_, ?_⟩ <;> ring

/-- On the open domain the correction term of the current operator (`min` of the two active bounds) EQUALS the one of the
    nine-branch operator it replaced (Case I, tie arm, II.A.1 .. III.B.2), whatever branch the latter takes -- ties
    included, where both are 0.  Machine-checked justification of repair b163717. -/
theorem C14_K_eq_nine_branch (h : Dom14 b d u a b0 d0 u0 b1 d1 u1 ay) :
    (BOp.deduceK (liftB (f := f) b d u a) (liftS b0 d0 u0) (liftS b1 d1 u1) (XQ.fin ay)).1
      = (Pinned.deduceKNineBranch (liftB (f := f) b d u a) (liftS b0 d0 u0) (liftS b1 d1 u1) (XQ.fin ay)).1 := by
  rw [deduceK_fst h, nineK_fst h]

/-- … hence the two operators return the same opinion on the open domain -/
theorem C14_eq_nine_branch (h : Dom14 b d u a b0 d0 u0 b1 d1 u1 ay) :
    (BOp.deduce (liftB (f := f) b d u a) (liftS b0 d0 u0) (liftS b1 d1 u1) (XQ.fin ay)).1
      = (Pinned.deduceNineBranch (liftB (f := f) b d u a) (liftS b0 d0 u0) (liftS b1 d1 u1) (XQ.fin ay)).1 := by
  have w := res_bwf h.x h.c0 h.c1 h.hy0 h.hy1
  have e := nineK_fst (f := f) h
  rw [deduce_ok h]
  unfold Pinned.deduceNineBranch
  simp only [e, XQ.one_def, XQ.sub_fin, XQ.mul_fin, XQ.add_fin]
  exact (BOp.tryNew_fin_ok w.hb w.hd w.hu w.hs w.ha0 w.ha1).symm

/-- Repair d46c983 (the result is divided by `s = b + d + u` before the checked constructor) is an identity in exact
    arithmetic: for every well-formed antecedent, well-formed conditionals and `0 < ay < 1` the normaliser is exactly 1
    (`C14_sum_algebra`) and the operator returns what the un-normalised one (`Pinned.deduceUnnorm`) returned.  In floating
    point the un-normalised result leaves the window of the self-check about once per million calls
    (`SLV.Props.Pinned.C14_pinned_deduce_unnorm_rejected`). -/
theorem C14_eq_unnormalised (hx : BWF b d u a) (h0 : SWF3 b0 d0 u0) (h1 : SWF3 b1 d1 u1)
    (hy0 : 0 < ay) (hy1 : ay < 1) :
    BOp.deduce (liftB (f := f) b d u a) (liftS b0 d0 u0) (liftS b1 d1 u1) (XQ.fin ay)
      = Pinned.deduceUnnorm (liftB (f := f) b d u a) (liftS b0 d0 u0) (liftS b1 d1 u1) (XQ.fin ay) := by
  have w := res_bwf hx h0 h1 hy0 hy1
  have e := deduceK_fst' (f := f) (b := b) (d := d) (a := a) (b0 := b0) (d0 := d0) (u0 := u0) (b1 := b1) (d1 := d1)
    (u1 := u1) hx.hu hy0 hy1
  rw [deduce_ok' hx h0 h1 hy0 hy1]
  unfold Pinned.deduceUnnorm
  simp only [e, XQ.one_def, XQ.sub_fin, XQ.mul_fin, XQ.add_fin]
  exact Prod.ext (BOp.tryNew_fin_ok w.hb w.hd w.hu w.hs w.ha0 w.ha1).symm rfl

/-! ### 1. base rate, additivity, projected probability -/

/-- the result carries the consequent base rate (all semantics, all inputs) -/
theorem C14_base_rate {α : Type} [Scalar α] (x : BOp α) (c0 c1 : α × α × α) (ay : α) {r : BOp α}
    (hr : (BOp.deduce x c0 c1 ay).1 = .ok r) : r.a = ay := by
  unfold BOp.deduce at hr
  rw [BOp.tryNew_ok_inv hr]

/-- pure algebra: `bI + dI + uI = 1`, hence the three result components add up to 1 for ANY `K` -/
theorem C14_sum_algebra (hx : b + d + u = 1) (h0 : b0 + d0 + u0 = 1) (h1 : b1 + d1 + u1 = 1) (K : ℚ) :
    mixq b d u a b0 b1 + mixq b d u a d0 d1 + mixq b d u a u0 u1 = 1 ∧
    (mixq b d u a b0 b1 - ay * K) + (mixq b d u a d0 d1 - (1 - ay) * K) + (mixq b d u a u0 u1 + K) = 1 := by
  have := mixq_sum (a := a) hx h0 h1
  exact ⟨this, by linarith⟩

/-- pure algebra: the projected probability of `(bI - ay K, ·, uI + K; ay)` is
    `P (b0 + ay u0) + (1-P) (b1 + ay u1)` for ANY `K` -/
theorem C14_projection_algebra (hx : b + d + u = 1) (K : ℚ) :
    (mixq b d u a b0 b1 - ay * K) + ay * (mixq b d u a u0 u1 + K)
      = (b + a * u) * (b0 + ay * u0) + (1 - (b + a * u)) * (b1 + ay * u1) := by
  rw [mixq_eq hx, mixq_eq hx]; ring

/-- whenever `deduce` returns `.ok r` (it always does on the open domain, `C14_closed_form`), `r` is a
    lifted rational opinion with base rate `ay`, non-negative components and `b + d + u = 1` -/
theorem C14_sum (h : Dom14 b d u a b0 d0 u0 b1 d1 u1 ay) {r : BOp (XQ f)}
    (hr : (BOp.deduce (liftB (f := f) b d u a) (liftS b0 d0 u0) (liftS b1 d1 u1) (XQ.fin ay)).1 = .ok r) :
    ∃ rb rd ru : ℚ, r = liftB rb rd ru ay ∧ rb + rd + ru = 1 ∧ BWF rb rd ru ay := by
  rw [C14_closed_form h] at hr
  cases hr
  exact ⟨_, _, _, rfl, (C14_wf h).1.hs, (C14_wf h).1⟩

/-- the projected probability of the deduced opinion is `P(x) P(y|x) + P(¬x) P(y|¬x)`, with
    `P(x) = b + a u`, `P(y|x) = b0 + ay u0`, `P(y|¬x) = b1 + ay u1` -/
theorem C14_projection (h : Dom14 b d u a b0 d0 u0 b1 d1 u1 ay) {r : BOp (XQ f)}
    (hr : (BOp.deduce (liftB (f := f) b d u a) (liftS b0 d0 u0) (liftS b1 d1 u1) (XQ.fin ay)).1 = .ok r) :
    r.projection
      = XQ.fin ((b + a * u) * (b0 + ay * u0) + (1 - (b + a * u)) * (b1 + ay * u1)) := by
  rw [C14_closed_form h] at hr
  cases hr
  unfold BOp.projection
  simp only [XQ.mul_fin, XQ.add_fin]
  rw [C14_projection_algebra h.x.hs]

/-- existence form: the call is accepted, and its projection is the total-probability value -/
theorem C14_accepts (h : Dom14 b d u a b0 d0 u0 b1 d1 u1 ay) :
    ∃ r : BOp (XQ f),
      (BOp.deduce (liftB (f := f) b d u a) (liftS b0 d0 u0) (liftS b1 d1 u1) (XQ.fin ay)).1 = .ok r ∧
      r.a = XQ.fin ay ∧
      r.projection = XQ.fin ((b + a * u) * (b0 + ay * u0) + (1 - (b + a * u)) * (b1 + ay * u1)) :=
  ⟨_, C14_closed_form h, rfl, C14_projection h (C14_closed_form h)⟩

/-! ### 2. Case I -/

/-- Case I (`b0 > b1` and `d0 > d1` agree): `k = 0`, the result `(bI, dI, uI; ay)` is accepted and
    well-formed.  No division is evaluated, so this holds on the closed domain: any well-formed
    antecedent (absolute ones included), any `0 ≤ ay ≤ 1`. -/
theorem C14_case1 (hx : BWF b d u a) (h0 : SWF3 b0 d0 u0) (h1 : SWF3 b1 d1 u1)
    (hy0 : 0 ≤ ay) (hy1 : ay ≤ 1) (hI : b1 < b0 ↔ d1 < d0) :
    BOp.deduce (liftB (f := f) b d u a) (liftS b0 d0 u0) (liftS b1 d1 u1) (XQ.fin ay)
      = (.ok (liftB (mixq b d u a b0 b1) (mixq b d u a d0 d1) (mixq b d u a u0 u1) ay), .I) ∧
    BWF (mixq b d u a b0 b1) (mixq b d u a d0 d1) (mixq b d u a u0 u1) ay := by
  have w : BWF (mixq b d u a b0 b1) (mixq b d u a d0 d1) (mixq b d u a u0 u1) ay :=
    ⟨mixq_nonneg hx h0.hb h1.hb, mixq_nonneg hx h0.hd h1.hd, mixq_nonneg hx h0.hu h1.hu,
      mixq_sum hx.hs h0.hs h1.hs, hy0, hy1⟩
  refine ⟨?_, w⟩
  have hK := deduceK_I (f := f) (b := b) (d := d) (u := u) (a := a) (u0 := u0) (u1 := u1) (ay := ay) hI
  rw [Kq_I hI] at hK
  rw [deduce_fin_of_K (K := 0) w.hs (by simpa using w.hb) (by simpa using w.hd) (by rw [hK]), hK]
  simp only [mul_zero, sub_zero, add_zero]
  rw [BOp.tryNew_fin_ok w.hb w.hd w.hu w.hs w.ha0 w.ha1]

/-! ### 2b. ties -/

/-- Ties: outside Case I, if the conditionals tie in belief or in disbelief then one of the two bounds is 0 and the other is
    non-negative: `k = 0`, the result `(bI, dI, uI; ay)` is accepted and well-formed, and it is the closed form (`Kq = 0`).
    Any well-formed antecedent (absolute ones, `a = 0`, `a = 1` included), `0 < ay < 1`.
    (STATEMENT CHANGED with repair b163717: the result is stated for the opinion only -- the tag `.Tie` of the former tie
    arm does not exist any more, the tag is `.IIA`/`.IIB`/`.IIIA`/`.IIIB` depending on which bound vanishes --, and `ay` is
    strictly inside (0, 1): at `ay ∈ {0, 1}` the vanishing bound is 0/0, see `C14_tie_boundary_ay1`.) -/
theorem C14_tie (hx : BWF b d u a) (h0 : SWF3 b0 d0 u0) (h1 : SWF3 b1 d1 u1)
    (hy0 : 0 < ay) (hy1 : ay < 1) (_hI : ¬(b1 < b0 ↔ d1 < d0)) (ht : b0 = b1 ∨ d0 = d1) :
    (BOp.deduce (liftB (f := f) b d u a) (liftS b0 d0 u0) (liftS b1 d1 u1) (XQ.fin ay)).1
      = .ok (liftB (mixq b d u a b0 b1) (mixq b d u a d0 d1) (mixq b d u a u0 u1) ay) ∧
    BWF (mixq b d u a b0 b1) (mixq b d u a d0 d1) (mixq b d u a u0 u1) ay ∧
    Kq u a b0 d0 b1 d1 ay = 0 := by
  have hK := Kq_tie (u := u) hx.ha0 hy0.le hy1.le ht
  have w := res_bwf hx h0 h1 hy0 hy1
  have c := C14_closed_form_closed (f := f) hx h0 h1 hy0 hy1
  rw [hK] at w c
  simp only [mul_zero, sub_zero, add_zero] at w c
  exact ⟨c, w, hK⟩

/-- Remark (outside the property's domain, `ay = 1`): at a tie `d0 = d1` in Case II the disbelief bound is
    `(1-a) u (d1-d0)/(1-ay) = 0/0 = NaN`; `f64::min` skips it and `k` is the belief bound `a u (b0-b1)/ay`, not 0 (the
    constraint on the disbelief is vacuous at `ay = 1`).  x = (1/4, 1/4, 1/2; 1/2), y|x = (1/2, 1/4, 1/4),
    y|¬x = (1/4, 1/4, 1/2): accepted, `k = 1/16`, result (3/8 - 1/16, 1/4, 3/8 + 1/16; 1).  The nine-branch operator's
    tie arm returned `k = 0` here. -/
theorem C14_tie_boundary_ay1 :
    (match BOp.deduce (liftB (f := .f64) (1/4) (1/4) (1/2) (1/2)) (liftS (1/2) (1/4) (1/4))
        (liftS (1/4) (1/4) (1/2)) (XQ.fin 1) with
      | (.ok r, .IIA) => decide (r.b = XQ.fin (5/16) ∧ r.d = XQ.fin (1/4) ∧ r.u = XQ.fin (7/16) ∧ r.a = XQ.fin 1)
      | _ => false) = true := by
  decide +kernel

/-! ### 3. dogmatic antecedent -/

/-- `u = 0`: `k = 0` in every branch (no 0/0 arises on the open domain) and the result is the
    belief-weighted mixture `(b b0 + d b1, b d0 + d d1, b u0 + d u1; ay)` of the two conditionals -/
theorem C14_dogmatic (h : Dom14 b d 0 a b0 d0 u0 b1 d1 u1 ay) :
    (BOp.deduce (liftB (f := f) b d 0 a) (liftS b0 d0 u0) (liftS b1 d1 u1) (XQ.fin ay)).1
      = .ok (liftB (b * b0 + d * b1) (b * d0 + d * d1) (b * u0 + d * u1) ay) ∧
    BWF (b * b0 + d * b1) (b * d0 + d * d1) (b * u0 + d * u1) ay := by
  have e : ∀ x0 x1 : ℚ, mixq b d 0 a x0 x1 = b * x0 + d * x1 := by
    intro x0 x1; unfold mixq; ring
  have w := (C14_wf h).1
  have c := C14_closed_form (f := f) h
  rw [Kq_dogmatic] at w c
  simp only [e, mul_zero, sub_zero, add_zero] at w c
  exact ⟨c, w⟩

/-! ### 4. Case II / III per active bound -/

/-- whenever sub-case A of Case II holds (`pyx ≤ r`), `d0 < d1` -/
theorem C14_IIA_divisor_pos (h : Dom14 b d u a b0 d0 u0 b1 d1 u1 ay) (hb : b1 < b0)
    (hA : pyxq a b0 u0 b1 u1 ay ≤ rII d0 b1 ay) : 0 < d1 - d0 :=
  sub_pos.mpr (h.IIA_strict hb hA)

/-- whenever sub-case B of Case III holds (`pyx > r`), `b0 < b1` -/
theorem C14_IIIB_divisor_pos (h : Dom14 b d u a b0 d0 u0 b1 d1 u1 ay) (hd : d1 < d0)
    (hB : rIII b0 d1 ay < pyxq a b0 u0 b1 u1 ay) : 0 < b1 - b0 :=
  sub_pos.mpr (h.IIIB_strict hd hB)

section cases
variable (h : Dom14 b d u a b0 d0 u0 b1 d1 u1 ay)
include h

/-- Case II, sub-case A: `b0 > b1`, `d0 ≤ d1`, `pyx ≤ r` (⇔ `ka ≤ kb`); `k = ka = a u (b0-b1)/ay`, tag `.IIA` -/
theorem C14_nonneg_IIA (hb : b1 < b0) (hd : d0 ≤ d1) (hA : pyxq a b0 u0 b1 u1 ay ≤ rII d0 b1 ay) :
    BOp.deduce (liftB (f := f) b d u a) (liftS b0 d0 u0) (liftS b1 d1 u1) (XQ.fin ay)
      = (.ok (liftB (mixq b d u a b0 b1 - ay * K_IIA) (mixq b d u a d0 d1 - (1 - ay) * K_IIA)
          (mixq b d u a u0 u1 + K_IIA) ay), .IIA) ∧
    0 ≤ K_IIA ∧
    BWF (mixq b d u a b0 b1 - ay * K_IIA) (mixq b d u a d0 d1 - (1 - ay) * K_IIA)
      (mixq b d u a u0 u1 + K_IIA) ay :=
  have hA' : a * (b0 - b1) * (1 - ay) ≤ ay * (1 - a) * (d1 - d0) := by
    linarith [pyx_sub_rII (a := a) (ay := ay) h.c0.hs h.c1.hs]
  deduce_case h (deduceK_IIA h.x.hu h.hy0 h.hy1 hb hd hA') (Kq_IIA h.hy0 h.hy1 hb hd hA')

/-- Case II, sub-case B: `b0 > b1`, `d0 ≤ d1`, `pyx > r` (⇔ `kb < ka`), non-dogmatic antecedent;
    `k = kb = (1-a) u (d1-d0)/(1-ay)`, tag `.IIB` -/
theorem C14_nonneg_IIB (hu : 0 < u) (hb : b1 < b0) (hd : d0 ≤ d1) (hB : rII d0 b1 ay < pyxq a b0 u0 b1 u1 ay) :
    BOp.deduce (liftB (f := f) b d u a) (liftS b0 d0 u0) (liftS b1 d1 u1) (XQ.fin ay)
      = (.ok (liftB (mixq b d u a b0 b1 - ay * K_IIB) (mixq b d u a d0 d1 - (1 - ay) * K_IIB)
          (mixq b d u a u0 u1 + K_IIB) ay), .IIB) ∧
    0 ≤ K_IIB ∧
    BWF (mixq b d u a b0 b1 - ay * K_IIB) (mixq b d u a d0 d1 - (1 - ay) * K_IIB)
      (mixq b d u a u0 u1 + K_IIB) ay :=
  have hB' : ay * (1 - a) * (d1 - d0) < a * (b0 - b1) * (1 - ay) := by
    linarith [pyx_sub_rII (a := a) (ay := ay) h.c0.hs h.c1.hs]
  deduce_case h (deduceK_IIB h.x.hu h.hy0 h.hy1 hu hb hd hB') (Kq_IIB h.hy0 h.hy1 hb hd hB'.le)

/-- Case III, sub-case A: `b0 ≤ b1`, `d0 > d1`, `pyx ≤ r` (⇔ `ka ≤ kb`); `k = ka = (1-a) u (b1-b0)/ay`, tag `.IIIA` -/
theorem C14_nonneg_IIIA (hb : b0 ≤ b1) (hd : d1 < d0) (hA : pyxq a b0 u0 b1 u1 ay ≤ rIII b0 d1 ay) :
    BOp.deduce (liftB (f := f) b d u a) (liftS b0 d0 u0) (liftS b1 d1 u1) (XQ.fin ay)
      = (.ok (liftB (mixq b d u a b0 b1 - ay * K_IIIA) (mixq b d u a d0 d1 - (1 - ay) * K_IIIA)
          (mixq b d u a u0 u1 + K_IIIA) ay), .IIIA) ∧
    0 ≤ K_IIIA ∧
    BWF (mixq b d u a b0 b1 - ay * K_IIIA) (mixq b d u a d0 d1 - (1 - ay) * K_IIIA)
      (mixq b d u a u0 u1 + K_IIIA) ay :=
  have hA' : (1 - a) * (b1 - b0) * (1 - ay) ≤ ay * a * (d0 - d1) := by
    linarith [pyx_sub_rIII (a := a) (ay := ay) h.c0.hs h.c1.hs]
  deduce_case h (deduceK_IIIA h.x.hu h.hy0 h.hy1 hb hd hA') (Kq_IIIA h.hy0 h.hy1 hb hd hA')

/-- Case III, sub-case B: `b0 ≤ b1`, `d0 > d1`, `pyx > r` (⇔ `kb < ka`), non-dogmatic antecedent;
    `k = kb = a u (d0-d1)/(1-ay)`, tag `.IIIB` -/
theorem C14_nonneg_IIIB (hu : 0 < u) (hb : b0 ≤ b1) (hd : d1 < d0) (hB : rIII b0 d1 ay < pyxq a b0 u0 b1 u1 ay) :
    BOp.deduce (liftB (f := f) b d u a) (liftS b0 d0 u0) (liftS b1 d1 u1) (XQ.fin ay)
      = (.ok (liftB (mixq b d u a b0 b1 - ay * K_IIIB) (mixq b d u a d0 d1 - (1 - ay) * K_IIIB)
          (mixq b d u a u0 u1 + K_IIIB) ay), .IIIB) ∧
    0 ≤ K_IIIB ∧
    BWF (mixq b d u a b0 b1 - ay * K_IIIB) (mixq b d u a d0 d1 - (1 - ay) * K_IIIB)
      (mixq b d u a u0 u1 + K_IIIB) ay :=
  have hB' : ay * a * (d0 - d1) < (1 - a) * (b1 - b0) * (1 - ay) := by
    linarith [pyx_sub_rIII (a := a) (ay := ay) h.c0.hs h.c1.hs]
  deduce_case h (deduceK_IIIB h.x.hu h.hy0 h.hy1 hu hb hd hB') (Kq_IIIB h.hy0 h.hy1 hb hd hB'.le)

/-- Non-negativity straight from `K = min(ka, kb)` and the cancellation identities (no case analysis on sub-cases):
    in Case II `b = bI - ay K ≥ bI - ay ka = b b0 + d b1 + u b1` and `d = dI - (1-ay) K ≥ dI - (1-ay) kb = b d0 + d d1 + u d0`
    (mirrored in Case III). -/
theorem C14_nonneg_from_min :
    0 ≤ mixq b d u a b0 b1 - ay * Kq u a b0 d0 b1 d1 ay ∧
    0 ≤ mixq b d u a d0 d1 - (1 - ay) * Kq u a b0 d0 b1 d1 ay :=
  res_nonneg h.x h.c0 h.c1 h.hy0 h.hy1

/-- Umbrella (Case I, Case II, Case III, ties included, nothing missing): on the open domain `deduce` returns, together with
    some branch tag, an accepted opinion `liftB rb rd ru ay` whose components are non-negative, at most
    one and add up to one. -/
theorem C14_nonneg :
    ∃ (rb rd ru : ℚ) (c : BOp.DCase),
      BOp.deduce (liftB (f := f) b d u a) (liftS b0 d0 u0) (liftS b1 d1 u1) (XQ.fin ay)
        = (.ok (liftB rb rd ru ay), c) ∧
      0 ≤ rb ∧ 0 ≤ rd ∧ 0 ≤ ru ∧ rb ≤ 1 ∧ rd ≤ 1 ∧ ru ≤ 1 ∧ rb + rd + ru = 1 := by
  have w := (C14_wf h).1
  exact ⟨_, _, _, _, deduce_ok h, w.hb, w.hd, w.hu, by linarith [w.hs, w.hd, w.hu],
    by linarith [w.hs, w.hb, w.hu], by linarith [w.hs, w.hb, w.hd], w.hs⟩

end cases

/-! ### 5. symmetries -/

/-- `x ↔ ¬x`: negating the antecedent and exchanging the two conditionals leaves the result unchanged.
    (Case II ↔ Case III with the same two bounds; the ties `b0 = b1` / `d0 = d1` fall into Case I on one side and
    into a `min` with a vanishing bound (`k = 0`) on the other — no extra hypothesis.) -/
theorem C14_swap_x (h : Dom14 b d u a b0 d0 u0 b1 d1 u1 ay) :
    (BOp.deduce (BOp.neg (liftB (f := f) b d u a)) (liftS b1 d1 u1) (liftS b0 d0 u0) (XQ.fin ay)).1
      = (BOp.deduce (liftB (f := f) b d u a) (liftS b0 d0 u0) (liftS b1 d1 u1) (XQ.fin ay)).1 := by
  have e : BOp.neg (liftB (f := f) b d u a) = liftB d b u (1 - a) := by
    unfold BOp.neg; simp only [XQ.one_def, XQ.sub_fin]
  rw [e, deduce_ok h.swap_x, deduce_ok h]
  simp only [mixq_swap_x, Kq_swap_x h.x.ha0 h.x.ha1 h.hy0 h.hy1]

/-- `y ↔ ¬y`: exchanging belief and disbelief of both conditionals and negating the base rate negates
    the result.  (Case II.A ↔ III.B etc.; at the tie `pyx = r` the A-form and B-form of `k` coincide, so
    no extra hypothesis.) -/
theorem C14_swap_y (h : Dom14 b d u a b0 d0 u0 b1 d1 u1 ay) :
    (BOp.deduce (liftB (f := f) b d u a) (liftS d0 b0 u0) (liftS d1 b1 u1) (XQ.fin (1 - ay))).1
      = Except.map BOp.neg
          (BOp.deduce (liftB (f := f) b d u a) (liftS b0 d0 u0) (liftS b1 d1 u1) (XQ.fin ay)).1 := by
  rw [deduce_ok h.swap_y, deduce_ok h]
  have e : (1 : ℚ) - (1 - ay) = ay := by ring
  simp only [Except.map, BOp.neg, XQ.one_def, XQ.sub_fin, Kq_swap_y, e]

/-- at a tie `pyx = r` in Case II the A-form and the B-form of `k` coincide (continuity across the
    A/B boundary) -/
theorem C14_AB_tie_II (h : Dom14 b d u a b0 d0 u0 b1 d1 u1 ay)
    (ht : pyxq a b0 u0 b1 u1 ay = rII d0 b1 ay) : K_IIA = K_IIB := by
  have e := pyx_sub_rII (a := a) (ay := ay) h.c0.hs h.c1.hs
  have hy0 := h.hy0; have hy1 : 0 < 1 - ay := sub_pos.mpr h.hy1
  rw [div_eq_div_iff hy0.ne' hy1.ne']
  have t : a * (b0 - b1) * (1 - ay) = ay * (1 - a) * (d1 - d0) := by linarith
  have e2 : a * u * (b0 - b1) * (1 - ay) = u * (a * (b0 - b1) * (1 - ay)) := by ring
  rw [e2, t]; ring

/-- same for Case III -/
theorem C14_AB_tie_III (h : Dom14 b d u a b0 d0 u0 b1 d1 u1 ay)
    (ht : pyxq a b0 u0 b1 u1 ay = rIII b0 d1 ay) : K_IIIA = K_IIIB := by
  have e := pyx_sub_rIII (a := a) (ay := ay) h.c0.hs h.c1.hs
  have hy0 := h.hy0; have hy1 : 0 < 1 - ay := sub_pos.mpr h.hy1
  rw [div_eq_div_iff hy0.ne' hy1.ne']
  have t : (1 - a) * (b1 - b0) * (1 - ay) = ay * a * (d0 - d1) := by linarith
  have e2 : (1 - a) * u * (b1 - b0) * (1 - ay) = u * ((1 - a) * (b1 - b0) * (1 - ay)) := by ring
  rw [e2, t]; ring

/-! ### 5b. repair cf81fd9: clamped belief and disbelief, for ALL operands

`deduce` clamps `b = bi - ay·k` and `d = di - (1-ay)·k` at zero before the division by `s = b + d + u`; the uncertainty
`u = ui + k` is a sum and is not clamped.  No well-formedness and no finiteness of the operands is assumed below.  On
well-formed operands the clamp is the identity (`res_nonneg`, used by `deduce_fin_of_K`): every statement above is the one
proved for the un-clamped operator (`Pinned.bdeduceNoClamp`).  In floating point the un-clamped difference is a rounding
residue of either sign where the exact mass is 0 (`SLV.Props.Pinned.C14_pinned_bdeduce_negative_mass`). -/

/-- For ALL operands (`U` is the model's un-normalised uncertainty `ui + k`):
    (1) what `deduce` hands to the checked constructor are the quotients `b/s`, `d/s`, `U/s`, `s = b + d + U`, of two values
        `b`, `d` that do not compare below zero (finite `≥ 0`, `+∞` or NaN); if `U` does not compare below zero either, none
        of the three quotients does;
    (2) an ACCEPTED result whose `U` does not compare below zero is an exactly well-formed simplex: the three masses are
        finite, each `≥ 0`, they add up to exactly 1 -- hence `u ≤ 1` -- whatever the operands were.
    The condition on `U` cannot be dropped: see the second example below (`U < 0` makes `s < 0` and turns the sign of the
    clamped masses; the tolerance of the constructor then accepts `b = -1/(2^53 - 1)`). -/
theorem C14_masses_nonneg_gen (w : BOp (XQ f)) (c0 c1 : XQ f × XQ f × XQ f) (ay U : XQ f)
    (hU : U = w.b * c0.2.2 + w.d * c1.2.2 + w.u * (c0.2.2 * w.a + c1.2.2 * (Scalar.one - w.a))
              + (BOp.deduceK w c0 c1 ay).1) :
    (∃ b d : XQ f,
      (BOp.deduce w c0 c1 ay).1 = BOp.tryNew (b / (b + d + U)) (d / (b + d + U)) (U / (b + d + U)) ay ∧
      Scalar.lt b (Scalar.zero : XQ f) = false ∧ Scalar.lt d (Scalar.zero : XQ f) = false ∧
      (Scalar.lt U (Scalar.zero : XQ f) = false →
        Scalar.lt (b / (b + d + U)) (Scalar.zero : XQ f) = false ∧
        Scalar.lt (d / (b + d + U)) (Scalar.zero : XQ f) = false ∧
        Scalar.lt (U / (b + d + U)) (Scalar.zero : XQ f) = false)) ∧
    (∀ r : BOp (XQ f), (BOp.deduce w c0 c1 ay).1 = .ok r → Scalar.lt U (Scalar.zero : XQ f) = false →
      ∃ p q t : ℚ, r.b = XQ.fin p ∧ r.d = XQ.fin q ∧ r.u = XQ.fin t ∧
        0 ≤ p ∧ 0 ≤ q ∧ 0 ≤ t ∧ p + q + t = 1 ∧ t ≤ 1) := by
  subst hU
  exact ⟨BOp.deduce_notNeg w c0 c1 ay, fun r hr hu => BOp.deduce_ok_wf w c0 c1 ay hr hu⟩

/-- on lifted well-formed operands with `0 < ay < 1` the hypothesis of `C14_masses_nonneg_gen` holds: `U = uI + K ≥ 0` -/
theorem C14_masses_nonneg_gen_applies (hx : BWF b d u a) (h0 : SWF3 b0 d0 u0) (h1 : SWF3 b1 d1 u1)
    (hy0 : 0 < ay) (hy1 : ay < 1) :
    Scalar.lt ((liftB (f := f) b d u a).b * (liftS (f := f) b0 d0 u0).2.2
        + (liftB (f := f) b d u a).d * (liftS (f := f) b1 d1 u1).2.2
        + (liftB (f := f) b d u a).u * ((liftS (f := f) b0 d0 u0).2.2 * (liftB (f := f) b d u a).a
            + (liftS (f := f) b1 d1 u1).2.2 * (Scalar.one - (liftB (f := f) b d u a).a))
        + (BOp.deduceK (liftB (f := f) b d u a) (liftS b0 d0 u0) (liftS b1 d1 u1) (XQ.fin ay)).1)
      (Scalar.zero : XQ f) = false := by
  rw [deduceK_fst' hx.hu hy0 hy1]
  show Scalar.lt (XQ.fin b * XQ.fin u0 + XQ.fin d * XQ.fin u1
    + XQ.fin u * (XQ.fin u0 * XQ.fin a + XQ.fin u1 * (Scalar.one - XQ.fin a)) + XQ.fin _) (Scalar.zero : XQ f) = false
  simp only [XQ.one_def, XQ.zero_def, XQ.sub_fin, XQ.mul_fin, XQ.add_fin, XQ.lt_fin, decide_eq_false_iff_not, not_lt]
  have := (res_bwf hx h0 h1 hy0 hy1).hu
  unfold mixq at this
  exact this

/-- non-vacuity / FALSE before the repair: the (ill-formed, finite) conditionals `y|x = y|¬x = (-2^-53, 0, 1 + 2^-53)` with
    the absolute antecedent `(1, 0, 0; 1/2)`, `ay = 1/2` (Case I): the un-clamped operator (`Pinned.bdeduceNoClamp`) returns
    -- accepted by the tolerance of the constructor -- the belief `-2^-53 < 0`; the model returns `(0, 0, 1)`, and the raw
    uncertainty `1 + 2^-53` is not below zero -/
example :
    let w : BOp (XQ .f64) := ⟨.fin 1, .fin 0, .fin 0, .fin (1/2)⟩
    let c : XQ .f64 × XQ .f64 × XQ .f64 := (.fin (-1/9007199254740992), .fin 0, .fin (9007199254740993/9007199254740992))
    (match (Pinned.bdeduceNoClamp w c c (.fin (1/2))).1 with
      | .ok r => decide (r.b = .fin (-1/9007199254740992) ∧ r.d = .fin 0 ∧ r.u = .fin (9007199254740993/9007199254740992))
      | .error _ => false) = true ∧
    (match (BOp.deduce w c c (.fin (1/2))).1 with
      | .ok r => decide (r.b = .fin 0 ∧ r.d = .fin 0 ∧ r.u = .fin 1) | .error _ => false) = true ∧
    Scalar.lt (w.b * c.2.2 + w.d * c.2.2 + w.u * (c.2.2 * w.a + c.2.2 * (Scalar.one - w.a))
      + (BOp.deduceK w c c (.fin (1/2))).1) (Scalar.zero : XQ .f64) = false := by
  decide +kernel

/-- the condition on the raw uncertainty in `C14_masses_nonneg_gen` is needed: conditionals `(2^-53, 0, -1)` (raw
    uncertainty `-1`, normaliser `2^-53 - 1 < 0`): the model's result is accepted with the belief `-1/(2^53 - 1) < 0` and the
    uncertainty `2^53/(2^53 - 1) > 1` (both inside the tolerance of the constructor) -/
example :
    let w : BOp (XQ .f64) := ⟨.fin 1, .fin 0, .fin 0, .fin (1/2)⟩
    let c : XQ .f64 × XQ .f64 × XQ .f64 := (.fin (1/9007199254740992), .fin 0, .fin (-1))
    (match (BOp.deduce w c c (.fin (1/2))).1 with
      | .ok r => decide (r.b = .fin (-1/9007199254740991) ∧ r.d = .fin 0 ∧ r.u = .fin (9007199254740992/9007199254740991))
      | .error _ => false) = true := by
  decide +kernel

/-! ### 6. non-vacuity -/

/-- a Case II.A.1 input in the open domain: x = (1/8, 5/8, 1/4; 1/2), y|x = (1/2, 1/4, 1/4),
    y|¬x = (1/4, 1/2, 1/4), ay = 3/4 -/
example : Dom14 (1/8) (5/8) (1/4) (1/2) (1/2) (1/4) (1/4) (1/4) (1/2) (1/4) (3/4) := by
  refine ⟨⟨?_, ?_, ?_, ?_, ?_, ?_⟩, ?_, ?_, ?_, ?_, ⟨?_, ?_, ?_, ?_⟩, ⟨?_, ?_, ?_, ?_⟩, ?_, ?_⟩ <;> norm_num

/-- … it satisfies the hypotheses of `C14_nonneg_IIA` -/
example : (1/4 : ℚ) < 1/2 ∧ (1/4 : ℚ) ≤ 1/2 ∧
    pyxq (1/2) (1/2) (1/4) (1/4) (1/4) (3/4) ≤ rII (1/4) (1/4) (3/4) ∧ (1/8 : ℚ) + 1/2 * (1/4) ≤ 1/2 := by
  unfold pyxq rII; norm_num

/-- … and the model returns the belief bound on it -/
example : (BOp.deduce (liftB (f := .f64) (1/8) (5/8) (1/4) (1/2)) (liftS (1/2) (1/4) (1/4))
    (liftS (1/4) (1/2) (1/4)) (XQ.fin (3/4))).2 = .IIA := by
  decide +kernel

/-- … with result (9/32, 41/96, 7/24; 3/4): `k = 1/24` -/
example : (BOp.deduce (liftB (f := f) (1/8) (5/8) (1/4) (1/2)) (liftS (1/2) (1/4) (1/4))
    (liftS (1/4) (1/2) (1/4)) (XQ.fin (3/4))).1 = .ok (liftB (9/32) (41/96) (7/24) (3/4)) := by
  have h : Dom14 (1/8) (5/8) (1/4) (1/2) (1/2) (1/4) (1/4) (1/4) (1/2) (1/4) (3/4) := by
    refine ⟨⟨?_, ?_, ?_, ?_, ?_, ?_⟩, ?_, ?_, ?_, ?_, ⟨?_, ?_, ?_, ?_⟩, ⟨?_, ?_, ?_, ?_⟩, ?_, ?_⟩ <;> norm_num
  have hA : pyxq (1/2) (1/2) (1/4) (1/4) (1/4) (3/4) ≤ rII (1/4) (1/4) (3/4) := by
    unfold pyxq rII; norm_num
  rw [(C14_nonneg_IIA h (by norm_num) (by norm_num) hA).1]
  unfold mixq; norm_num

/-- a Case III, sub-case B input in the open domain: x = (5/8, 1/8, 1/4; 1/2), y|x = (1/4, 1/2, 1/4),
    y|¬x = (1/2, 1/4, 1/4), ay = 1/4 -/
example : Dom14 (5/8) (1/8) (1/4) (1/2) (1/4) (1/2) (1/4) (1/2) (1/4) (1/4) (1/4) := by
  refine ⟨⟨?_, ?_, ?_, ?_, ?_, ?_⟩, ?_, ?_, ?_, ?_, ⟨?_, ?_, ?_, ?_⟩, ⟨?_, ?_, ?_, ?_⟩, ?_, ?_⟩ <;> norm_num

/-- … it satisfies the hypotheses of `C14_nonneg_IIIB` -/
example : (1/4 : ℚ) ≤ 1/2 ∧ (1/4 : ℚ) < 1/2 ∧
    rIII (1/4) (1/4) (1/4) < pyxq (1/2) (1/4) (1/4) (1/2) (1/4) (1/4) ∧ (1/2 : ℚ) < 5/8 + 1/2 * (1/4) := by
  unfold pyxq rIII; norm_num

/-- … and the model returns the disbelief bound on it -/
example : (BOp.deduce (liftB (f := .f64) (5/8) (1/8) (1/4) (1/2)) (liftS (1/4) (1/2) (1/4))
    (liftS (1/2) (1/4) (1/4)) (XQ.fin (1/4))).2 = .IIIB := by
  decide +kernel

/-- a tie input in the open domain (the binary32 witness of `SLV.Props.Pinned.C14_pinned_deduce_tie_nan` as
    rationals): x = (3/8, 1/2, 1/8; 1/8), y|x = (1/8, 0, 7/8), y|¬x = (127/1024, 0, 897/1024), ay = 4095/4096 -/
example : Dom14 (3/8) (1/2) (1/8) (1/8) (1/8) 0 (7/8) (127/1024) 0 (897/1024) (4095/4096) := by
  refine ⟨⟨?_, ?_, ?_, ?_, ?_, ?_⟩, ?_, ?_, ?_, ?_, ⟨?_, ?_, ?_, ?_⟩, ⟨?_, ?_, ?_, ?_⟩, ?_, ?_⟩ <;> norm_num

/-- … it satisfies the hypotheses of `C14_tie` (`b0 > b1`, `d0 = d1`) -/
example : ¬((127/1024 : ℚ) < 1/8 ↔ (0 : ℚ) < 0) ∧ ((1/8 : ℚ) = 127/1024 ∨ (0 : ℚ) = 0) := by
  norm_num

/-- … and the model returns the vanishing disbelief bound on it: `k = 0` -/
example : (BOp.deduceK (liftB (f := .f64) (3/8) (1/2) (1/8) (1/8)) (liftS (1/8) 0 (7/8))
    (liftS (127/1024) 0 (897/1024)) (XQ.fin (4095/4096))) = (XQ.fin 0, .IIB) := by
  decide +kernel

/-- a dogmatic antecedent in the open domain (for `C14_dogmatic`) -/
example : Dom14 (1/4) (3/4) 0 (1/2) (1/2) (1/4) (1/4) (1/4) (1/2) (1/4) (3/4) := by
  refine ⟨⟨?_, ?_, ?_, ?_, ?_, ?_⟩, ?_, ?_, ?_, ?_, ⟨?_, ?_, ?_, ?_⟩, ⟨?_, ?_, ?_, ?_⟩, ?_, ?_⟩ <;> norm_num

/-- Remark (outside the property's domain): with antecedent base rate `a = 0` the input x = (1/2, 1/4, 1/4; 0),
    y|x = (1/2, 1/4, 1/4), y|¬x = (1/4, 1/4, 1/2), ay = 1/2 is a Case II input with `d0 = d1`.  Before repair 4d5bbb1 it
    reached II.A.2, 0/0 = NaN, and the constructor rejected it (`SLV.Props.Pinned.C14_pinned_boundary_a0_rejected`).
    It is accepted since (tie arm of 4d5bbb1; now both bounds are 0 -- an instance of `C14_tie`). -/
theorem C14_boundary_a0_tie_accepted :
    (match BOp.deduce (liftB (f := .f64) (1/2) (1/4) (1/4) 0) (liftS (1/2) (1/4) (1/4))
        (liftS (1/4) (1/4) (1/2)) (XQ.fin (1/2)) with
      | (.ok _, .IIA) => true | _ => false) = true := by
  decide +kernel

/-- Remark (outside the property's domain): x = (0, 1/2, 1/2; 0) has projected probability `P = 0`; with
    y|x = (1/2, 1/4, 1/4), y|¬x = (1/4, 1/2, 1/4), ay = 1/2 (no tie) the nine-branch operator reached II.A.1, whose divisor is
    `P·ay = 0` under a zero numerator, and rejected (`SLV.Props.Pinned.C14_pinned_boundary_P0_rejected`; this theorem used to
    be `C14_boundary_P0_rejected` and is FALSE for the repaired operator).  Now `ka = 0·u·(b0-b1)/ay = 0`, `k = 0`, and the
    result (1/4, 1/2, 1/4; 1/2) is accepted -- an instance of `C14_closed_form_closed`. -/
theorem C14_boundary_P0_accepted :
    (match BOp.deduce (liftB (f := .f64) 0 (1/2) (1/2) 0) (liftS (1/2) (1/4) (1/4))
        (liftS (1/4) (1/2) (1/4)) (XQ.fin (1/2)) with
      | (.ok r, .IIA) => decide (r.b = XQ.fin (1/4) ∧ r.d = XQ.fin (1/2) ∧ r.u = XQ.fin (1/4) ∧ r.a = XQ.fin (1/2))
      | _ => false) = true := by
  decide +kernel

/-- `C14_repaired`: the formerly failing input of the pinned tree
    (x = (1/16, 6/16, 9/16; 1/4), y|x = (0, 10/16, 6/16), y|¬x = (0, 5/16, 11/16), ay = 3/4; kernel-checked
    acceptance: `SLV.Props.Pinned.C14_repaired_accepts` in SLV/Props/Pinned.lean) lies in the open
    domain, so `C14_closed_form` applies to it: `d0 > d1` with `b0 = b1`, hence `k = 0` (via III.A.1 before repair
    4d5bbb1, via the tie arm after it, as `min(0, kb)` since b163717). -/
theorem C14_repaired :
    Dom14 (1/16) (6/16) (9/16) (1/4) 0 (10/16) (6/16) 0 (5/16) (11/16) (3/4) ∧
    Kq (9/16) (1/4) 0 (10/16) 0 (5/16) (3/4) = 0 := by
  constructor
  · refine ⟨⟨?_, ?_, ?_, ?_, ?_, ?_⟩, ?_, ?_, ?_, ?_, ⟨?_, ?_, ?_, ?_⟩, ⟨?_, ?_, ?_, ?_⟩, ?_, ?_⟩ <;> norm_num
  · rw [Kq_III (le_refl _) (by norm_num)]; norm_num

end SLV.Props.C14
