/-
  C10 — Trust discounting.
  "Discounting a well-formed opinion by a trust level t in [0,1] yields a well-formed opinion with every
   belief mass multiplied by t, uncertainty 1 - t(1 - u) and unchanged base rate, so its projected
   probability is tP + (1-t)a.  Trust 1 returns the opinion unchanged, trust 0 or a vacuous input returns
   the vacuous opinion, and discounting by t1 then t2 equals discounting once by t1*t2.  The binomial
   uncertainty-favouring and base-rate-sensitive discounts agree with it on a binary domain, and the
   opposite-belief discount with trust b and distrust d (b + d <= 1) returns the well-formed opinion
   (b*bx + d*dx, b*dx + d*bx, 1 - (b+d)(1-ux))."

  All statements are about the executable model (`Simplex.discount`, `Opinion.discount` in
  SLV/Model/Basic.lean; `BOp.transUnc/transOpp/transBsr` in SLV/Model/Bi.lean) at the exact semantics
  `XQ f`, for every domain size `n`.  `ε = f.eps`.

  The model (like the Rust code) first tests `is_vacuous()` = `ulps_eq!(u, 1)`, i.e. `1-2ε ≤ u ≤ 1+4ε`
  ("guard band").  Inside the band the result is the exact vacuous opinion whatever `t` is, so the
  closed formula holds exactly outside the band and within `2ε` inside it.
-/
import SLV.Props.C09
import SLV.Refine.C10Lemmas

namespace SLV.Props.C10
open SLV Scalar
open SLV.Props.C09 (WF C09_projection)

variable {f : Fmt} {n : Nat}

/-! ### 1. closed formula (outside the guard band) -/

/-- `Simplex::discount` whenever the vacuity test fails (`u` below OR above the band `[1-2ε, 1+4ε]`):
    every mass times `t`, uncertainty `1 - t(1-u)`.  Holds for every rational `b`, `u`, `t`. -/
theorem C10_formula_simplex_gen (b : Fin n → ℚ) {u : ℚ}
    (hu : ¬ (1 - 2 * f.eps ≤ u ∧ u ≤ 1 + 4 * f.eps)) (t : ℚ) :
    Simplex.discount (⟨liftT b, XQ.fin u⟩ : Simplex (XQ f) n) (XQ.fin t)
      = ⟨liftT (fun i => b i * t), XQ.fin (1 - t * (1 - u))⟩ := by
  unfold Simplex.discount Simplex.isVacuous
  have hg : Scalar.isOne (XQ.fin u : XQ f) = false := by
    rw [XQ.isOne_fin, decide_eq_false_iff_not]; exact hu
  simp only [hg, Bool.false_eq_true, if_false, XQ.one_def, XQ.sub_fin, XQ.mul_fin]
  rw [liftT_map b (fun x => x * XQ.fin t) (fun q => q * t) (by intro q; simp)]

theorem C10_formula_gen (b a : Fin n → ℚ) {u : ℚ}
    (hu : ¬ (1 - 2 * f.eps ≤ u ∧ u ≤ 1 + 4 * f.eps)) (t : ℚ) :
    Opinion.discount (⟨liftT b, XQ.fin u, liftT a⟩ : Opinion (XQ f) n) (XQ.fin t)
      = ⟨liftT (fun i => b i * t), XQ.fin (1 - t * (1 - u)), liftT a⟩ := by
  unfold Opinion.discount Opinion.simplex Opinion.mk'
  simp only [C10_formula_simplex_gen b hu t]

/-- `Simplex::discount` outside the guard band: every mass times `t`, uncertainty `1 - t(1-u)`.
    (Holds for every rational `b`, `u`, `t`; well-formedness is not needed.) -/
theorem C10_formula_simplex (b : Fin n → ℚ) {u : ℚ} (hu : u < 1 - 2 * f.eps) (t : ℚ) :
    Simplex.discount (⟨liftT b, XQ.fin u⟩ : Simplex (XQ f) n) (XQ.fin t)
      = ⟨liftT (fun i => b i * t), XQ.fin (1 - t * (1 - u))⟩ :=
  C10_formula_simplex_gen b (fun h => absurd hu (not_lt.mpr h.1)) t

/-- `Opinion::discount` outside the guard band -/
theorem C10_formula (b a : Fin n → ℚ) {u : ℚ} (hu : u < 1 - 2 * f.eps) (t : ℚ) :
    Opinion.discount (⟨liftT b, XQ.fin u, liftT a⟩ : Opinion (XQ f) n) (XQ.fin t)
      = ⟨liftT (fun i => b i * t), XQ.fin (1 - t * (1 - u)), liftT a⟩ :=
  C10_formula_gen b a (fun h => absurd hu (not_lt.mpr h.1)) t

/-! ### 2. the guard band -/

/-- the vacuous simplex of the model is the lifted all-zero table with uncertainty one -/
theorem C10_vacuous_lift :
    (Vector.replicate n (XQ.fin 0) : Tab (XQ f) n) = liftT (fun _ => (0 : ℚ)) ∧
    (Simplex.vacuous : Simplex (XQ f) n) = ⟨liftT (fun _ => (0 : ℚ)), XQ.fin 1⟩ :=
  ⟨replicate_zero_eq_liftT n, vacuous_eq_liftT n⟩

theorem C10_vacuous_guard_simplex (b : Fin n → ℚ) {u : ℚ} (hlo : 1 - 2 * f.eps ≤ u)
    (hhi : u ≤ 1 + 4 * f.eps) (t : XQ f) :
    Simplex.discount (⟨liftT b, XQ.fin u⟩ : Simplex (XQ f) n) t
      = ⟨liftT (fun _ => (0 : ℚ)), XQ.fin 1⟩ := by
  unfold Simplex.discount Simplex.isVacuous
  have hg : Scalar.isOne (XQ.fin u : XQ f) = true := by
    rw [XQ.isOne_fin, decide_eq_true_eq]; exact ⟨hlo, hhi⟩
  simp only [hg, if_true]
  exact vacuous_eq_liftT n

/-- inside the guard band the result is exactly the vacuous opinion with the same base rate,
    whatever the trust argument is (any `XQ` value, even non-finite) -/
theorem C10_vacuous_guard (b a : Fin n → ℚ) {u : ℚ} (hlo : 1 - 2 * f.eps ≤ u)
    (hhi : u ≤ 1 + 4 * f.eps) (t : XQ f) :
    Opinion.discount (⟨liftT b, XQ.fin u, liftT a⟩ : Opinion (XQ f) n) t
      = ⟨liftT (fun _ => (0 : ℚ)), XQ.fin 1, liftT a⟩ := by
  unfold Opinion.discount Opinion.simplex Opinion.mk'
  simp only [C10_vacuous_guard_simplex b hlo hhi t]

theorem wf_u_le_one {b a : Fin n → ℚ} {u : ℚ} (h : WF b u a) : u ≤ 1 := by
  have := Finset.sum_nonneg (fun i (_ : i ∈ Finset.univ) => h.hb i)
  linarith [h.hs]

theorem wf_b_le {b a : Fin n → ℚ} {u : ℚ} (h : WF b u a) (i : Fin n) : b i ≤ 1 - u := by
  have := Finset.single_le_sum (f := b) (fun j _ => h.hb j) (Finset.mem_univ i)
  linarith [h.hs]

theorem wf_a_le_one {b a : Fin n → ℚ} {u : ℚ} (h : WF b u a) (i : Fin n) : a i ≤ 1 := by
  have := Finset.single_le_sum (f := a) (fun j _ => h.ha0 j) (Finset.mem_univ i)
  linarith [h.ha]

/-- guard arm for a well-formed input (the upper end of the band is automatic) -/
theorem C10_vacuous_guard_wf {b a : Fin n → ℚ} {u : ℚ} (h : WF b u a) (hlo : 1 - 2 * f.eps ≤ u)
    (t : XQ f) :
    Opinion.discount (⟨liftT b, XQ.fin u, liftT a⟩ : Opinion (XQ f) n) t
      = ⟨liftT (fun _ => (0 : ℚ)), XQ.fin 1, liftT a⟩ :=
  C10_vacuous_guard b a hlo (by linarith [(wf_u_le_one h), XQ.eps_pos f]) t

/-- a vacuous input (u = 1) returns the vacuous opinion -/
theorem C10_vacuous_input (b a : Fin n → ℚ) (t : XQ f) :
    Opinion.discount (⟨liftT b, XQ.fin 1, liftT a⟩ : Opinion (XQ f) n) t
      = ⟨liftT (fun _ => (0 : ℚ)), XQ.fin 1, liftT a⟩ :=
  C10_vacuous_guard b a (by linarith [XQ.eps_pos f]) (by linarith [XQ.eps_pos f]) t

/-! ### 3. well-formedness -/

/-- the base rate is never touched (all inputs, all semantics) -/
theorem C10_base_rate {α : Type} [Scalar α] (w : Opinion α n) (t : α) :
    (Opinion.discount w t).a = w.a := rfl

/-- the closed-form result is well-formed -/
theorem C10_wf_formula {b a : Fin n → ℚ} {u t : ℚ} (h : WF b u a) (ht0 : 0 ≤ t) (ht1 : t ≤ 1) :
    WF (fun i => b i * t) (1 - t * (1 - u)) a := by
  have hu1 := (wf_u_le_one h)
  refine ⟨fun i => mul_nonneg (h.hb i) ht0, ?_, ?_, h.ha0, h.ha⟩
  · nlinarith [mul_nonneg ht0 h.hu, mul_nonneg (sub_nonneg.mpr ht1) (sub_nonneg.mpr hu1)]
  · rw [← Finset.sum_mul]
    have : ∑ i, b i = 1 - u := by linarith [h.hs]
    rw [this]; ring

/-- the vacuous opinion over a well-formed base rate is well-formed -/
theorem C10_wf_vacuous {b a : Fin n → ℚ} {u : ℚ} (h : WF b u a) : WF (fun _ : Fin n => (0 : ℚ)) 1 a :=
  ⟨fun _ => le_refl _, zero_le_one, by simp, h.ha0, h.ha⟩

/-- `discount` of a well-formed opinion by `t ∈ [0,1]` is a (lifted) well-formed opinion — both arms;
    outside the guard band it is the closed form. -/
theorem C10_wf {b a : Fin n → ℚ} {u t : ℚ} (h : WF b u a) (ht0 : 0 ≤ t) (ht1 : t ≤ 1) :
    ∃ (b' : Fin n → ℚ) (u' : ℚ),
      Opinion.discount (⟨liftT b, XQ.fin u, liftT a⟩ : Opinion (XQ f) n) (XQ.fin t)
        = ⟨liftT b', XQ.fin u', liftT a⟩ ∧ WF b' u' a ∧
      (u < 1 - 2 * f.eps → b' = (fun i => b i * t) ∧ u' = 1 - t * (1 - u)) ∧
      (1 - 2 * f.eps ≤ u → b' = (fun _ => 0) ∧ u' = 1) := by
  by_cases hu : u < 1 - 2 * f.eps
  · exact ⟨_, _, C10_formula b a hu t, C10_wf_formula h ht0 ht1, fun _ => ⟨rfl, rfl⟩,
      fun h' => absurd hu (not_lt.mpr h')⟩
  · exact ⟨_, _, C10_vacuous_guard_wf h (not_lt.mp hu) _, C10_wf_vacuous h,
      fun h' => absurd h' hu, fun _ => ⟨rfl, rfl⟩⟩

/-! ### 4. projection -/

/-- projected probability of the discounted opinion: `t P + (1-t) a` -/
theorem C10_projection {b a : Fin n → ℚ} {u t : ℚ} (h : WF b u a) (hu : u < 1 - 2 * f.eps)
    (ht0 : 0 ≤ t) (ht1 : t ≤ 1) :
    Opinion.projection (Opinion.discount (⟨liftT b, XQ.fin u, liftT a⟩ : Opinion (XQ f) n) (XQ.fin t))
      = liftT (fun i => t * (b i + a i * u) + (1 - t) * a i) := by
  rw [C10_formula b a hu t]
  unfold Opinion.projection
  simp only [C09_projection (C10_wf_formula h ht0 ht1)]
  apply liftT_congr; intro i; ring

/-- guard arm: the projection is the base rate -/
theorem C10_projection_guard {b a : Fin n → ℚ} {u : ℚ} (h : WF b u a) (hlo : 1 - 2 * f.eps ≤ u)
    (t : XQ f) :
    Opinion.projection (Opinion.discount (⟨liftT b, XQ.fin u, liftT a⟩ : Opinion (XQ f) n) t)
      = liftT a := by
  rw [C10_vacuous_guard_wf h hlo t]
  unfold Opinion.projection
  simp only [C09_projection (C10_wf_vacuous h)]
  apply liftT_congr; intro i; ring

/-- … which is within `2ε` of the ideal `t P + (1-t) a` -/
theorem C10_projection_within {b a : Fin n → ℚ} {u t : ℚ} (h : WF b u a) (hlo : 1 - 2 * f.eps ≤ u)
    (ht0 : 0 ≤ t) (ht1 : t ≤ 1) (i : Fin n) :
    |t * (b i + a i * u) + (1 - t) * a i - a i| ≤ 2 * f.eps := by
  have hu1 := (wf_u_le_one h)
  have hbi := (wf_b_le h i)
  have hb0 := h.hb i
  have ha0 := h.ha0 i
  have ha1 := (wf_a_le_one h i)
  have e : t * (b i + a i * u) + (1 - t) * a i - a i = t * (b i - a i * (1 - u)) := by ring
  rw [e, abs_mul, abs_of_nonneg ht0]
  have h1 : |b i - a i * (1 - u)| ≤ 1 - u := by
    rw [abs_le]
    constructor
    · nlinarith [mul_nonneg (sub_nonneg.mpr ha1) (sub_nonneg.mpr hu1)]
    · nlinarith [mul_nonneg ha0 (sub_nonneg.mpr hu1)]
  calc t * |b i - a i * (1 - u)| ≤ 1 * (1 - u) :=
        mul_le_mul ht1 h1 (abs_nonneg _) zero_le_one
    _ ≤ 2 * f.eps := by linarith

/-! ### 5. trust one, trust zero -/

/-- trust 1 returns the opinion unchanged (outside the guard band) -/
theorem C10_one (b a : Fin n → ℚ) {u : ℚ} (hu : u < 1 - 2 * f.eps) :
    Opinion.discount (⟨liftT b, XQ.fin u, liftT a⟩ : Opinion (XQ f) n) (XQ.fin 1)
      = ⟨liftT b, XQ.fin u, liftT a⟩ := by
  rw [C10_formula b a hu 1]
  have e1 : (liftT (fun i => b i * 1) : Tab (XQ f) n) = liftT b := liftT_congr (fun i => mul_one _)
  have e2 : (1 : ℚ) - 1 * (1 - u) = u := by ring
  rw [e1, e2]

/-- inside the guard band trust 1 changes each component by at most `2ε` (well-formed input) -/
theorem C10_one_within {b a : Fin n → ℚ} {u : ℚ} (h : WF b u a) (hlo : 1 - 2 * f.eps ≤ u) :
    Opinion.discount (⟨liftT b, XQ.fin u, liftT a⟩ : Opinion (XQ f) n) (XQ.fin 1)
      = ⟨liftT (fun _ => (0 : ℚ)), XQ.fin 1, liftT a⟩ ∧
    (∀ i, |b i - 0| ≤ 2 * f.eps) ∧ |u - 1| ≤ 2 * f.eps := by
  refine ⟨C10_vacuous_guard_wf h hlo _, fun i => ?_, ?_⟩
  · rw [sub_zero, abs_of_nonneg (h.hb i)]; linarith [(wf_b_le h i)]
  · rw [abs_le]; constructor <;> linarith [(wf_u_le_one h)]

/-- trust 0 returns the vacuous opinion with the same base rate (EVERY rational input, both arms) -/
theorem C10_zero (b a : Fin n → ℚ) (u : ℚ) :
    Opinion.discount (⟨liftT b, XQ.fin u, liftT a⟩ : Opinion (XQ f) n) (XQ.fin 0)
      = ⟨liftT (fun _ => (0 : ℚ)), XQ.fin 1, liftT a⟩ ∧
    (⟨liftT (fun _ => (0 : ℚ)), XQ.fin 1, liftT a⟩ : Opinion (XQ f) n)
      = Opinion.mk' Simplex.vacuous (liftT a) := by
  constructor
  · by_cases hu : 1 - 2 * f.eps ≤ u ∧ u ≤ 1 + 4 * f.eps
    · exact C10_vacuous_guard b a hu.1 hu.2 _
    · rw [C10_formula_gen b a hu 0]
      have e1 : (liftT (fun i => b i * 0) : Tab (XQ f) n) = liftT (fun _ => (0 : ℚ)) :=
        liftT_congr (fun i => mul_zero _)
      have e2 : (1 : ℚ) - 0 * (1 - u) = 1 := by ring
      rw [e1, e2]
  · unfold Opinion.mk'
    simp only [vacuous_eq_liftT n]

/-! ### 6. composition -/

/-- discounting by `t1` then `t2` equals discounting once by `t1 * t2`, when neither the input nor the
    intermediate uncertainty lies in the guard band (every rational `b`, `t1`, `t2`) -/
theorem C10_compose (b a : Fin n → ℚ) {u : ℚ} (t1 t2 : ℚ) (hu : u < 1 - 2 * f.eps)
    (hmid : 1 - t1 * (1 - u) < 1 - 2 * f.eps) :
    Opinion.discount
        (Opinion.discount (⟨liftT b, XQ.fin u, liftT a⟩ : Opinion (XQ f) n) (XQ.fin t1)) (XQ.fin t2)
      = Opinion.discount (⟨liftT b, XQ.fin u, liftT a⟩ : Opinion (XQ f) n) (XQ.fin (t1 * t2)) := by
  rw [C10_formula b a hu t1, C10_formula _ a hmid t2, C10_formula b a hu (t1 * t2)]
  have e1 : (liftT (fun i => b i * t1 * t2) : Tab (XQ f) n) = liftT (fun i => b i * (t1 * t2)) :=
    liftT_congr (fun i => mul_assoc _ _ _)
  have e2 : (1 : ℚ) - t2 * (1 - (1 - t1 * (1 - u))) = 1 - t1 * t2 * (1 - u) := by ring
  rw [e1, e2]

/-- for a well-formed input and `t1 ≤ 1` the intermediate condition implies the input condition -/
theorem C10_compose' {b a : Fin n → ℚ} {u t1 : ℚ} (h : WF b u a) (t2 : ℚ) (ht11 : t1 ≤ 1) (hmid : 1 - t1 * (1 - u) < 1 - 2 * f.eps) :
    Opinion.discount
        (Opinion.discount (⟨liftT b, XQ.fin u, liftT a⟩ : Opinion (XQ f) n) (XQ.fin t1)) (XQ.fin t2)
      = Opinion.discount (⟨liftT b, XQ.fin u, liftT a⟩ : Opinion (XQ f) n) (XQ.fin (t1 * t2)) := by
  apply C10_compose b a t1 t2 _ hmid
  have := (wf_u_le_one h)
  nlinarith [mul_nonneg (sub_nonneg.mpr ht11) (sub_nonneg.mpr this)]

/-- a chain of discounts equals one discount by the product of the trusts, provided the input and every
    intermediate uncertainty `1 - (t_1⋯t_k)(1-u)`, `k < length`, stays outside the guard band -/
theorem C10_compose_chain (a : Fin n → ℚ) (ts : List ℚ) :
    ∀ (b : Fin n → ℚ) (u : ℚ), u < 1 - 2 * f.eps →
      (∀ k, k < ts.length → 1 - (ts.take k).prod * (1 - u) < 1 - 2 * f.eps) →
      ts.foldl (fun w t => Opinion.discount w (XQ.fin t))
          (⟨liftT b, XQ.fin u, liftT a⟩ : Opinion (XQ f) n)
        = Opinion.discount (⟨liftT b, XQ.fin u, liftT a⟩ : Opinion (XQ f) n) (XQ.fin ts.prod) := by
  induction ts with
  | nil =>
    intro b u hu _
    rw [List.foldl_nil, List.prod_nil, C10_one b a hu]
  | cons t ts ih =>
    intro b u hu hk
    rw [List.foldl_cons, List.prod_cons, C10_formula b a hu t]
    cases ts with
    | nil =>
      rw [List.foldl_nil, List.prod_nil, mul_one, C10_formula b a hu t]
    | cons t' ts' =>
      have hmid : 1 - t * (1 - u) < 1 - 2 * f.eps := by
        have := hk 1 (by simp)
        simpa using this
      rw [ih (fun i => b i * t) (1 - t * (1 - u)) hmid ?_]
      · rw [← C10_formula b a hu t]
        exact C10_compose b a t _ hu hmid
      · intro k hk'
        have := hk (k + 1) (by simpa using hk')
        rw [List.take_succ_cons, List.prod_cons] at this
        have e : (List.take k (t' :: ts')).prod * (1 - (1 - t * (1 - u)))
            = t * (List.take k (t' :: ts')).prod * (1 - u) := by ring
        rw [e]; exact this

/-- without the intermediate-guard hypothesis: for a well-formed input and trusts in [0,1] both sides are
    lifted well-formed opinions over the same base rate that differ by at most `2ε` in every belief mass
    and in the uncertainty.  (When the intermediate uncertainty `1 - t1(1-u)` falls in the guard band the
    left side is exactly vacuous, while the right side is `(b t1 t2, 1 - t1 t2 (1-u))` with
    `t1 t2 (1-u) ≤ t1 (1-u) ≤ 2ε`.) -/
theorem C10_compose_within {b a : Fin n → ℚ} {u t1 t2 : ℚ} (h : WF b u a)
    (ht10 : 0 ≤ t1) (ht11 : t1 ≤ 1) (ht20 : 0 ≤ t2) (ht21 : t2 ≤ 1) :
    ∃ (bl br : Fin n → ℚ) (ul ur : ℚ),
      Opinion.discount
          (Opinion.discount (⟨liftT b, XQ.fin u, liftT a⟩ : Opinion (XQ f) n) (XQ.fin t1)) (XQ.fin t2)
        = ⟨liftT bl, XQ.fin ul, liftT a⟩ ∧
      Opinion.discount (⟨liftT b, XQ.fin u, liftT a⟩ : Opinion (XQ f) n) (XQ.fin (t1 * t2))
        = ⟨liftT br, XQ.fin ur, liftT a⟩ ∧
      WF bl ul a ∧ WF br ur a ∧
      (∀ i, |bl i - br i| ≤ 2 * f.eps) ∧ |ul - ur| ≤ 2 * f.eps ∧
      (1 - t1 * (1 - u) < 1 - 2 * f.eps → bl = br ∧ ul = ur) := by
  have he := XQ.eps_pos f
  have hu1 := (wf_u_le_one h)
  by_cases hu : u < 1 - 2 * f.eps
  · by_cases hmid : 1 - t1 * (1 - u) < 1 - 2 * f.eps
    · -- both exact
      refine ⟨fun i => b i * (t1 * t2), fun i => b i * (t1 * t2), 1 - t1 * t2 * (1 - u),
        1 - t1 * t2 * (1 - u), ?_, C10_formula b a hu _, ?_, ?_, ?_, ?_, fun _ => ⟨rfl, rfl⟩⟩
      · rw [C10_compose b a t1 t2 hu hmid, C10_formula b a hu]
      · exact C10_wf_formula h (mul_nonneg ht10 ht20) (by nlinarith)
      · exact C10_wf_formula h (mul_nonneg ht10 ht20) (by nlinarith)
      · intro i; simp [he.le]
      · simp [he.le]
    · -- intermediate opinion in the guard band: left side is vacuous
      have hmid' : 1 - 2 * f.eps ≤ 1 - t1 * (1 - u) := not_lt.mp hmid
      have hwf1 := C10_wf_formula h ht10 ht11
      have hsmall : t1 * t2 * (1 - u) ≤ 2 * f.eps := by
        have : t1 * t2 * (1 - u) ≤ t1 * (1 - u) := by
          nlinarith [mul_nonneg ht10 (sub_nonneg.mpr hu1), mul_nonneg (mul_nonneg ht10
            (sub_nonneg.mpr hu1)) (sub_nonneg.mpr ht21)]
        linarith
      have hnn : 0 ≤ t1 * t2 * (1 - u) :=
        mul_nonneg (mul_nonneg ht10 ht20) (sub_nonneg.mpr hu1)
      refine ⟨fun _ => 0, fun i => b i * (t1 * t2), 1, 1 - t1 * t2 * (1 - u), ?_,
        C10_formula b a hu _, C10_wf_vacuous h, ?_, ?_, ?_, fun h' => absurd h' hmid⟩
      · rw [C10_formula b a hu t1]
        exact C10_vacuous_guard_wf hwf1 hmid' _
      · exact C10_wf_formula h (mul_nonneg ht10 ht20) (by nlinarith)
      · intro i
        have hb0 := h.hb i
        have hbi := (wf_b_le h i)
        have : 0 ≤ b i * (t1 * t2) := mul_nonneg hb0 (mul_nonneg ht10 ht20)
        rw [zero_sub, abs_neg, abs_of_nonneg this]
        have : b i * (t1 * t2) ≤ (1 - u) * (t1 * t2) :=
          mul_le_mul_of_nonneg_right hbi (mul_nonneg ht10 ht20)
        linarith
      · have e : (1 : ℚ) - (1 - t1 * t2 * (1 - u)) = t1 * t2 * (1 - u) := by ring
        rw [e, abs_of_nonneg hnn]; exact hsmall
  · -- input in the guard band: both sides are vacuous
    have hlo : 1 - 2 * f.eps ≤ u := not_lt.mp hu
    refine ⟨fun _ => 0, fun _ => 0, 1, 1, ?_, C10_vacuous_guard_wf h hlo _, C10_wf_vacuous h,
      C10_wf_vacuous h, ?_, ?_, fun _ => ⟨rfl, rfl⟩⟩
    · rw [C10_vacuous_guard_wf h hlo _]
      exact C10_vacuous_input _ a _
    · intro i; simp [he.le]
    · simp [he.le]

/-! ### 7. binomial discounts -/

/-- well-formed rational binomial opinion -/
structure BWF (b d u a : ℚ) : Prop where
  hb : 0 ≤ b
  hd : 0 ≤ d
  hu : 0 ≤ u
  hs : b + d + u = 1
  ha0 : 0 ≤ a
  ha1 : a ≤ 1

/-- the binary multinomial opinion of a well-formed binomial one is well-formed -/
theorem BWF.toWF {b d u a : ℚ} (h : BWF b d u a) : WF (n := 2) ![b, d] u ![a, 1 - a] := by
  constructor
  · exact Fin.forall_fin_two.mpr ⟨by simpa using h.hb, by simpa using h.hd⟩
  · exact h.hu
  · rw [Fin.sum_univ_two]; simpa using h.hs
  · exact Fin.forall_fin_two.mpr ⟨by simpa using h.ha0, by simpa using h.ha1⟩
  · rw [Fin.sum_univ_two]; simp

/-- uncertainty-favouring discount: accepted by the checked constructor, with the closed form -/
theorem C10_trans_unc_ok {b d u a t : ℚ} (h : BWF b d u a) (ht0 : 0 ≤ t) (ht1 : t ≤ 1) :
    BOp.transUnc (⟨XQ.fin b, XQ.fin d, XQ.fin u, XQ.fin a⟩ : BOp (XQ f)) (XQ.fin t)
      = .ok ⟨XQ.fin (t * b), XQ.fin (t * d), XQ.fin (1 - t + t * u), XQ.fin a⟩ := by
  unfold BOp.transUnc
  simp only [checkUnit_fin_ok' (f := f) Label.bb ht0 ht1, XQ.one_def, XQ.mul_fin, XQ.sub_fin,
    XQ.add_fin]
  apply BOp.tryNew_fin_ok (mul_nonneg ht0 h.hb) (mul_nonneg ht0 h.hd) _ _ h.ha0 h.ha1
  · nlinarith [mul_nonneg ht0 h.hu]
  · have : b + d = 1 - u := by linarith [h.hs]
    calc t * b + t * d + (1 - t + t * u) = t * (b + d) + (1 - t + t * u) := by ring
      _ = 1 := by rw [this]; ring

/-- base-rate-sensitive discount: accepted, with the closed form -/
theorem C10_trans_bsr_ok {b d u a t : ℚ} (h : BWF b d u a) (ht0 : 0 ≤ t) (ht1 : t ≤ 1) :
    BOp.transBsr (⟨XQ.fin b, XQ.fin d, XQ.fin u, XQ.fin a⟩ : BOp (XQ f)) (XQ.fin t)
      = .ok ⟨XQ.fin (t * b), XQ.fin (t * d), XQ.fin (1 - t * (b + d)), XQ.fin a⟩ := by
  unfold BOp.transBsr
  simp only [checkUnit_fin_ok' (f := f) Label.ev ht0 ht1, XQ.one_def, XQ.mul_fin, XQ.sub_fin,
    XQ.add_fin]
  have hbd0 : 0 ≤ b + d := add_nonneg h.hb h.hd
  have hbd1 : b + d ≤ 1 := by linarith [h.hs, h.hu]
  apply BOp.tryNew_fin_ok (mul_nonneg ht0 h.hb) (mul_nonneg ht0 h.hd) _ _ h.ha0 h.ha1
  · nlinarith [mul_nonneg (sub_nonneg.mpr ht1) hbd0, mul_nonneg ht0 (sub_nonneg.mpr hbd1)]
  · ring

/-- the results of the two binomial discounts are well-formed and their uncertainty is `1 - t(1-u)` -/
theorem C10_trans_wf {b d u a t : ℚ} (h : BWF b d u a) (ht0 : 0 ≤ t) (ht1 : t ≤ 1) :
    BWF (t * b) (t * d) (1 - t * (1 - u)) a ∧
    1 - t + t * u = 1 - t * (1 - u) ∧ 1 - t * (b + d) = 1 - t * (1 - u) := by
  have hbd : b + d = 1 - u := by linarith [h.hs]
  have hu1 : u ≤ 1 := by linarith [h.hs, h.hb, h.hd]
  refine ⟨⟨mul_nonneg ht0 h.hb, mul_nonneg ht0 h.hd, ?_, ?_, h.ha0, h.ha1⟩, by ring, by rw [hbd]⟩
  · nlinarith [mul_nonneg ht0 h.hu, mul_nonneg (sub_nonneg.mpr ht1) (sub_nonneg.mpr hu1)]
  · calc t * b + t * d + (1 - t * (1 - u)) = t * (b + d) + (1 - t * (1 - u)) := by ring
      _ = 1 := by rw [hbd]; ring

/-- the multinomial discount of the binary opinion, converted back -/
theorem ofOpinion_discount (b d u a t : ℚ) (hu : u < 1 - 2 * f.eps) :
    BOp.ofOpinion (Opinion.discount
        (BOp.toOpinion (⟨XQ.fin b, XQ.fin d, XQ.fin u, XQ.fin a⟩ : BOp (XQ f))) (XQ.fin t))
      = ⟨XQ.fin (b * t), XQ.fin (d * t), XQ.fin (1 - t * (1 - u)), XQ.fin a⟩ := by
  rw [BOp.toOpinion_fin, C10_formula _ _ hu t]
  unfold BOp.ofOpinion
  simp [liftT]

/-- on a binary domain `trans_unc` agrees with the multinomial discount (outside the guard band) -/
theorem C10_trans_unc_eq {b d u a t : ℚ} (h : BWF b d u a) (ht0 : 0 ≤ t) (ht1 : t ≤ 1)
    (hu : u < 1 - 2 * f.eps) :
    BOp.transUnc (⟨XQ.fin b, XQ.fin d, XQ.fin u, XQ.fin a⟩ : BOp (XQ f)) (XQ.fin t)
      = .ok (BOp.ofOpinion (Opinion.discount
          (BOp.toOpinion (⟨XQ.fin b, XQ.fin d, XQ.fin u, XQ.fin a⟩ : BOp (XQ f))) (XQ.fin t))) := by
  rw [C10_trans_unc_ok h ht0 ht1, ofOpinion_discount b d u a t hu]
  have e1 : t * b = b * t := mul_comm _ _
  have e2 : t * d = d * t := mul_comm _ _
  have e3 : 1 - t + t * u = 1 - t * (1 - u) := by ring
  rw [e1, e2, e3]

/-- on a binary domain `trans_bsr` agrees with the multinomial discount (outside the guard band) -/
theorem C10_trans_bsr_eq {b d u a t : ℚ} (h : BWF b d u a) (ht0 : 0 ≤ t) (ht1 : t ≤ 1)
    (hu : u < 1 - 2 * f.eps) :
    BOp.transBsr (⟨XQ.fin b, XQ.fin d, XQ.fin u, XQ.fin a⟩ : BOp (XQ f)) (XQ.fin t)
      = .ok (BOp.ofOpinion (Opinion.discount
          (BOp.toOpinion (⟨XQ.fin b, XQ.fin d, XQ.fin u, XQ.fin a⟩ : BOp (XQ f))) (XQ.fin t))) := by
  rw [C10_trans_bsr_ok h ht0 ht1, ofOpinion_discount b d u a t hu]
  have e1 : t * b = b * t := mul_comm _ _
  have e2 : t * d = d * t := mul_comm _ _
  have e3 : 1 - t * (b + d) = 1 - t * (1 - u) := by
    have : b + d = 1 - u := by linarith [h.hs]
    rw [this]
  rw [e1, e2, e3]

/-- hence the two binomial discounts agree with each other (no guard: neither tests vacuity) -/
theorem C10_trans_unc_eq_bsr {b d u a t : ℚ} (h : BWF b d u a) (ht0 : 0 ≤ t) (ht1 : t ≤ 1) :
    BOp.transUnc (⟨XQ.fin b, XQ.fin d, XQ.fin u, XQ.fin a⟩ : BOp (XQ f)) (XQ.fin t)
      = BOp.transBsr (⟨XQ.fin b, XQ.fin d, XQ.fin u, XQ.fin a⟩ : BOp (XQ f)) (XQ.fin t) := by
  rw [C10_trans_unc_ok h ht0 ht1, C10_trans_bsr_ok h ht0 ht1]
  obtain ⟨_, e1, e2⟩ := C10_trans_wf h ht0 ht1
  rw [e1, e2]

/-- inside the guard band the multinomial discount returns the vacuous opinion, while the binomial ones
    still apply the formula; the two differ by at most `2ε` per component -/
theorem C10_trans_guard_within {b d u a t : ℚ} (h : BWF b d u a) (ht0 : 0 ≤ t) (ht1 : t ≤ 1)
    (hlo : 1 - 2 * f.eps ≤ u) :
    BOp.ofOpinion (Opinion.discount
        (BOp.toOpinion (⟨XQ.fin b, XQ.fin d, XQ.fin u, XQ.fin a⟩ : BOp (XQ f))) (XQ.fin t))
      = ⟨XQ.fin 0, XQ.fin 0, XQ.fin 1, XQ.fin a⟩ ∧
    |t * b - 0| ≤ 2 * f.eps ∧ |t * d - 0| ≤ 2 * f.eps ∧ |1 - t * (1 - u) - 1| ≤ 2 * f.eps := by
  have hu1 : u ≤ 1 := by linarith [h.hs, h.hb, h.hd]
  have hb1 : b ≤ 1 - u := by linarith [h.hs, h.hd]
  have hd1 : d ≤ 1 - u := by linarith [h.hs, h.hb]
  refine ⟨?_, ?_, ?_, ?_⟩
  · rw [BOp.toOpinion_fin, C10_vacuous_guard_wf h.toWF hlo]
    unfold BOp.ofOpinion
    simp [liftT]
  · rw [sub_zero, abs_of_nonneg (mul_nonneg ht0 h.hb)]
    nlinarith [mul_nonneg (sub_nonneg.mpr ht1) h.hb]
  · rw [sub_zero, abs_of_nonneg (mul_nonneg ht0 h.hd)]
    nlinarith [mul_nonneg (sub_nonneg.mpr ht1) h.hd]
  · have e : 1 - t * (1 - u) - 1 = -(t * (1 - u)) := by ring
    rw [e, abs_neg, abs_of_nonneg (mul_nonneg ht0 (sub_nonneg.mpr hu1))]
    nlinarith [mul_nonneg (sub_nonneg.mpr ht1) (sub_nonneg.mpr hu1)]

/-- opposite-belief discount with trust `tb` and distrust `td`, `tb + td ≤ 1` -/
theorem C10_trans_opp_ok {b d u a tb td : ℚ} (h : BWF b d u a) (hb0 : 0 ≤ tb) (hd0 : 0 ≤ td)
    (hbd : tb + td ≤ 1) :
    BOp.transOpp (⟨XQ.fin b, XQ.fin d, XQ.fin u, XQ.fin a⟩ : BOp (XQ f)) (XQ.fin tb) (XQ.fin td)
      = .ok ⟨XQ.fin (tb * b + td * d), XQ.fin (tb * d + td * b),
          XQ.fin ((1 - tb - td) + (tb + td) * u), XQ.fin a⟩ := by
  unfold BOp.transOpp
  have hc : checkUnit (XQ.fin (1 - tb - td) : XQ f) Label.u = .ok () :=
    checkUnit_fin_ok' _ (by linarith) (by linarith)
  simp only [XQ.one_def, XQ.mul_fin, XQ.sub_fin, XQ.add_fin, hc]
  apply BOp.tryNew_fin_ok _ _ _ _ h.ha0 h.ha1
  · exact add_nonneg (mul_nonneg hb0 h.hb) (mul_nonneg hd0 h.hd)
  · exact add_nonneg (mul_nonneg hb0 h.hd) (mul_nonneg hd0 h.hb)
  · have := mul_nonneg (add_nonneg hb0 hd0) h.hu
    linarith
  · have : u = 1 - b - d := by linarith [h.hs]
    rw [this]; ring

/-- the result of `trans_opp` is well-formed, with uncertainty `1 - (tb+td)(1-u)` -/
theorem C10_trans_opp_wf {b d u a tb td : ℚ} (h : BWF b d u a) (hb0 : 0 ≤ tb) (hd0 : 0 ≤ td)
    (hbd : tb + td ≤ 1) :
    BWF (tb * b + td * d) (tb * d + td * b) ((1 - tb - td) + (tb + td) * u) a ∧
    (1 - tb - td) + (tb + td) * u = 1 - (tb + td) * (1 - u) ∧
    tb * b + td * d ≤ 1 ∧ tb * d + td * b ≤ 1 ∧ (1 - tb - td) + (tb + td) * u ≤ 1 := by
  have h1 : 0 ≤ tb * b + td * d := add_nonneg (mul_nonneg hb0 h.hb) (mul_nonneg hd0 h.hd)
  have h2 : 0 ≤ tb * d + td * b := add_nonneg (mul_nonneg hb0 h.hd) (mul_nonneg hd0 h.hb)
  have h3 : 0 ≤ (1 - tb - td) + (tb + td) * u := by
    have := mul_nonneg (add_nonneg hb0 hd0) h.hu
    linarith
  have hs : (tb * b + td * d) + (tb * d + td * b) + ((1 - tb - td) + (tb + td) * u) = 1 := by
    have : u = 1 - b - d := by linarith [h.hs]
    rw [this]; ring
  exact ⟨⟨h1, h2, h3, hs, h.ha0, h.ha1⟩, by ring, by linarith, by linarith, by linarith⟩

/-- an argument outside the accepted band `[-ε, 1+4ε]` (or non-finite) makes the checked call fail
    (≙ the Rust `unwrap()` panics), with the label of the failed check -/
theorem C10_trans_panics (x : BOp (XQ f)) :
    (∀ t : ℚ, (t < -f.eps ∨ 1 + 4 * f.eps < t) → x.transUnc (XQ.fin t) = .error .bb) ∧
    (∀ t : ℚ, (t < -f.eps ∨ 1 + 4 * f.eps < t) → x.transBsr (XQ.fin t) = .error .ev) ∧
    (∀ tb td : ℚ, (1 - tb - td < -f.eps ∨ 1 + 4 * f.eps < 1 - tb - td) →
        x.transOpp (XQ.fin tb) (XQ.fin td) = .error .u) ∧
    (∀ t : XQ f, (t = .pinf ∨ t = .ninf ∨ t = .nan) →
        x.transUnc t = .error .bb ∧ x.transBsr t = .error .ev) := by
  refine ⟨?_, ?_, ?_, ?_⟩
  · intro t ht
    unfold BOp.transUnc
    simp only [checkUnit_fin_error (f := f) Label.bb ht]
  · intro t ht
    unfold BOp.transBsr
    simp only [checkUnit_fin_error (f := f) Label.ev ht]
  · intro tb td ht
    unfold BOp.transOpp
    simp only [XQ.one_def, XQ.sub_fin, checkUnit_fin_error (f := f) Label.u ht]
  · rintro t (rfl | rfl | rfl) <;> exact ⟨rfl, rfl⟩

/-- conversely an argument inside the band but outside [0,1] is NOT rejected by the argument check
    (`check_unit_interval` is tolerant): e.g. `t = -ε` passes the check of `trans_unc`. -/
theorem C10_trans_arg_tolerance (l : Label) :
    checkUnit (XQ.fin (-f.eps) : XQ f) l = .ok () ∧
    checkUnit (XQ.fin (1 + 4 * f.eps) : XQ f) l = .ok () := by
  have he := XQ.eps_pos f
  exact ⟨checkUnit_fin_ok l (le_refl _) (by linarith), checkUnit_fin_ok l (by linarith) (le_refl _)⟩

theorem eps_small (f : Fmt) : f.eps < 1 / 16 := by
  cases f <;> norm_num [Fmt.eps, Fmt.mant]

/-! ### witnesses: the unguarded statements are false inside the guard band -/

/-- FINDING (expected, tolerance guard): "trust 1 returns the opinion unchanged" fails for every
    well-formed non-vacuous input whose uncertainty lies in the band `[1-2ε, 1)`: the result is the exact
    vacuous opinion (it differs from the input by at most `2ε`, see `C10_one_within`). -/
theorem C10_one_false_in_band {b a : Fin n → ℚ} {u : ℚ} (h : WF b u a) (hlo : 1 - 2 * f.eps ≤ u)
    (hne : u ≠ 1) :
    Opinion.discount (⟨liftT b, XQ.fin u, liftT a⟩ : Opinion (XQ f) n) (XQ.fin 1)
      ≠ ⟨liftT b, XQ.fin u, liftT a⟩ := by
  rw [C10_vacuous_guard_wf h hlo]
  intro he
  have : (XQ.fin 1 : XQ f) = XQ.fin u := congrArg Opinion.u he
  exact hne (XQ.fin.inj this).symm

/-- FINDING (expected, tolerance guard): composition fails when the intermediate uncertainty falls in the
    band: input `u = 1/2`, `t1 = 2ε`, `t2 = 1` gives intermediate `1 - ε`; discounting twice yields the
    vacuous opinion (u = 1), discounting once by `t1 t2` yields `u = 1 - ε`. -/
theorem C10_compose_false_in_band (b a : Fin n → ℚ) :
    Opinion.discount
        (Opinion.discount (⟨liftT b, XQ.fin (1/2), liftT a⟩ : Opinion (XQ f) n) (XQ.fin (2 * f.eps)))
        (XQ.fin 1)
      ≠ Opinion.discount (⟨liftT b, XQ.fin (1/2), liftT a⟩ : Opinion (XQ f) n)
          (XQ.fin (2 * f.eps * 1)) := by
  have he := XQ.eps_pos f
  have hs := eps_small f
  have hu : (1/2 : ℚ) < 1 - 2 * f.eps := by linarith
  rw [C10_formula b a hu, C10_formula b a hu,
    C10_vacuous_guard _ a (by linarith) (by linarith)]
  intro h
  have : (XQ.fin 1 : XQ f) = XQ.fin (1 - 2 * f.eps * 1 * (1 - 1 / 2)) := congrArg Opinion.u h
  have := XQ.fin.inj this
  linarith

/-! ### non-vacuity -/

/-- a non-trivial ternary opinion satisfying the hypotheses of the multinomial theorems
    (well-formed, outside the guard band; the intermediate uncertainty `1 - (1/2)(1/2) = 3/4` too) -/
example : WF (n := 3) ![1/4, 1/8, 1/8] (1/2) ![1/4, 1/4, 1/2] ∧ (1/2 : ℚ) < 1 - 2 * f.eps ∧
    (1 : ℚ) - (1/2) * (1 - 1/2) < 1 - 2 * f.eps := by
  have := eps_small f
  refine ⟨?_, by linarith, by linarith⟩
  constructor <;> simp [Fin.forall_fin_succ, Fin.sum_univ_succ] <;> norm_num

/-- the guard arm is inhabited by a well-formed non-vacuous opinion: u = 1 - ε, b = (ε, 0) -/
example : WF (n := 2) ![f.eps, 0] (1 - f.eps) ![1/4, 3/4] ∧ 1 - 2 * f.eps ≤ 1 - f.eps := by
  have h0 := XQ.eps_pos f
  have := eps_small f
  refine ⟨?_, by linarith⟩
  constructor
  · exact Fin.forall_fin_two.mpr ⟨by simpa using h0.le, by simp⟩
  · linarith
  · simp [Fin.sum_univ_two]
  · exact Fin.forall_fin_two.mpr ⟨by norm_num, by norm_num⟩
  · simp [Fin.sum_univ_two]; norm_num

/-- a chain whose intermediate uncertainties stay outside the band -/
example : ∀ k, k < ([1/2, 1/2, 1] : List ℚ).length →
    1 - (([1/2, 1/2, 1] : List ℚ).take k).prod * (1 - 1/2) < 1 - 2 * f.eps := by
  have := eps_small f
  intro k hk
  have hk' : k < 3 := by simpa using hk
  rcases (by omega : k = 0 ∨ k = 1 ∨ k = 2) with rfl | rfl | rfl <;> norm_num <;> linarith

/-- a well-formed binomial opinion and admissible trust / distrust arguments -/
example : BWF (1/2) (1/4) (1/4) (1/3) ∧ (0 : ℚ) ≤ 1/2 ∧ (0 : ℚ) ≤ 1/4 ∧ (1/2 : ℚ) + 1/4 ≤ 1 ∧
    (1/4 : ℚ) < 1 - 2 * f.eps := by
  have := eps_small f
  refine ⟨⟨?_, ?_, ?_, ?_, ?_, ?_⟩, ?_, ?_, ?_, ?_⟩ <;> norm_num
  linarith

/-- concrete instance of the binomial closed forms at f64 -/
example :
    BOp.transOpp (⟨XQ.fin (1/2), XQ.fin (1/4), XQ.fin (1/4), XQ.fin (1/3)⟩ : BOp (XQ .f64))
        (XQ.fin (1/2)) (XQ.fin (1/4))
      = .ok ⟨XQ.fin (5/16), XQ.fin (1/4), XQ.fin (7/16), XQ.fin (1/3)⟩ := by
  rw [C10_trans_opp_ok (by constructor <;> norm_num) (by norm_num) (by norm_num) (by norm_num)]
  norm_num

end SLV.Props.C10
