/-
  C08 — The marginal base rate derived from a base rate on X and conditionals X->Y is either absent or
  a probability distribution over Y satisfying a(y) = Σ_x a(x) P(y|x) when P(y|x) is projected with
  that same a; it is absent exactly when no conditional that carries belief mass has a positive base
  rate (in particular when all conditionals are vacuous), and it never contains NaN.  Deduction and
  abduction without a fallback return nothing exactly in that case, and deduction with a
  caller-supplied fallback base rate evaluates the fallback only in that case.

  Property theorems only; helper lemmas and the rational closed forms live in
  SLV/Refine/C08Lemmas.lean (and C04Lemmas.lean for `condTab`, `Hyp`):
    `HypM ax cb cu`     well-formedness of the rational inputs: `ax ≥ 0`, `Σ ax = 1` (zeros allowed),
                        every conditional `(cb x, cu x)` a simplex (`cb ≥ 0`, `cu ≥ 0`, `Σ_y cb x y + cu x = 1`)
    `raw y  = Σ_x ax x * cb x y`
    `S      = Σ_x ax x * (1 - cu x)`   (= Σ_y raw y) belief weight carried at positive base rate
    `may y  = raw y / S`               the marginal base rate
    `AllVac f cu = ∀ x, 1 - 2ε ≤ cu x` every conditional passes the tolerance guard `is_vacuous`
    `Plain  f cu = ∀ x, cu x = 1 ∨ cu x < 1 - 2ε`   no conditional is vacuous merely by tolerance
    `condTab cb cu f = Vector.ofFn fun x => ⟨liftT (cb x), XQ.fin (cu x)⟩`
  All statements are about the executable model `mbr`, `deduce`, `deduceWith`, `abduce`
  (SLV/Model/Cond.lean; Rust src/mul.rs:739-766, 826-834, 941-944) at the exact semantics `XQ f`,
  for every `n`, `m`.

  Finding (tolerance band): `mbr` is also absent when every conditional is within 2ε of vacuous although
  some of them carry belief mass at a positive base rate (`C08_none_iff_general`, witness
  `C08_band_witness`); then `S ≤ 2ε` (`C08_none_within`).  The "exactly when" of the property therefore
  holds for `Plain` tables (`C08_none_iff`), and in general with the extra disjunct.

  Link to the pinned defect: SLV/Props/Pinned.lean `C08_pinned_mbr_nan` shows that the crate at the
  pinned commit (no `sum_a == 0` test) returns `some [NaN, NaN]` on the table of the first `example`
  below; `C08_repaired_mbr_none` is the repaired model on that table, an instance of `C08_lift_none`.
-/
import SLV.Refine.C08Lemmas
import SLV.Props.C04
import Mathlib.Data.Fin.VecNotation

namespace SLV.Props.C08
open SLV Scalar SLV.C04 SLV.C08 SLV.Props.C09

variable {f : Fmt} {n m : Nat}
variable {ax : Fin n → ℚ} {cb : Fin n → Fin m → ℚ} {cu : Fin n → ℚ}

/-! ### 1. closed form of `mbr` -/

/-- the model's `mbr` on lifted well-formed inputs, in closed form: absent if every conditional passes
    the vacuity guard or no belief is carried at a positive base rate; otherwise the lifted
    `raw / S` (the only division has the non-zero denominator `S`) -/
theorem C08_lift (h : HypM ax cb cu) :
    mbr (liftT ax : Tab (XQ f) n) (condTab cb cu f)
      = if (∀ x, 1 - 2 * f.eps ≤ cu x) ∨ ∑ x, ax x * (1 - cu x) = 0 then none
        else some (liftT fun y => (∑ x, ax x * cb x y) / ∑ x, ax x * (1 - cu x)) :=
  mbr_lift h

theorem C08_lift_none (h : HypM ax cb cu) (hc : AllVac f cu ∨ S ax cu = 0) :
    mbr (liftT ax : Tab (XQ f) n) (condTab cb cu f) = none := by
  rw [mbr_lift h, if_pos hc]

theorem C08_lift_some (h : HypM ax cb cu) (hv : ¬ AllVac f cu) (hS : S ax cu ≠ 0) :
    mbr (liftT ax : Tab (XQ f) n) (condTab cb cu f) = some (liftT (may ax cb cu)) := by
  rw [mbr_lift h, if_neg (by rintro (hc | hc); exact hv hc; exact hS hc)]

/-- `S` is the sum of the un-normalised entries, and lies in `[0, 1]` -/
theorem C08_S_char (h : HypM ax cb cu) :
    S ax cu = ∑ y, ∑ x, ax x * cb x y ∧ 0 ≤ S ax cu ∧ S ax cu ≤ 1 :=
  ⟨(sum_raw h).symm, S_nonneg h, S_le_one h⟩

/-- a present result determines the closed form -/
theorem C08_some_inv (h : HypM ax cb cu) {a : Tab (XQ f) m}
    (he : mbr (liftT ax : Tab (XQ f) n) (condTab cb cu f) = some a) :
    ¬ AllVac f cu ∧ S ax cu ≠ 0 ∧ a = liftT (may ax cb cu) := by
  by_cases hc : AllVac f cu ∨ S ax cu = 0
  · rw [C08_lift_none h hc] at he; cases he
  · have hv : ¬ AllVac f cu := fun hv => hc (Or.inl hv)
    have hS : S ax cu ≠ 0 := fun hS => hc (Or.inr hS)
    rw [C08_lift_some h hv hS] at he
    exact ⟨hv, hS, (Option.some.inj he).symm⟩

/-! ### 2. a present result is a probability distribution without NaN -/

/-- the closed form is a distribution as soon as `S ≠ 0` -/
theorem C08_dist (h : HypM ax cb cu) (hS : S ax cu ≠ 0) :
    (∀ y, 0 ≤ may ax cb cu y) ∧ ∑ y, may ax cb cu y = 1 :=
  ⟨may_nonneg h, sum_may h hS⟩

/-- if `mbr` returns a base rate, it is a lifted probability distribution over Y -/
theorem C08_some_dist (h : HypM ax cb cu) {a : Tab (XQ f) m}
    (he : mbr (liftT ax : Tab (XQ f) n) (condTab cb cu f) = some a) :
    ∃ ay : Fin m → ℚ, a = liftT ay ∧ (∀ y, 0 ≤ ay y) ∧ ∑ y, ay y = 1 := by
  obtain ⟨_, hS, e⟩ := C08_some_inv h he
  exact ⟨may ax cb cu, e, may_nonneg h, sum_may h hS⟩

/-- … every entry is a finite value in `[0, 1]`: no NaN, no infinity -/
theorem C08_never_nan (h : HypM ax cb cu) {a : Tab (XQ f) m}
    (he : mbr (liftT ax : Tab (XQ f) n) (condTab cb cu f) = some a) (y : Fin m) :
    Scalar.isNaN a[y] = false ∧ ∃ q : ℚ, a[y] = XQ.fin q ∧ 0 ≤ q ∧ q ≤ 1 := by
  obtain ⟨ay, e, h0, h1⟩ := C08_some_dist h he
  subst e
  rw [liftT_getElem]
  refine ⟨rfl, ay y, rfl, h0 y, ?_⟩
  rw [← h1]
  exact Finset.single_le_sum (fun i _ => h0 i) (Finset.mem_univ y)

/-- … as a Boolean test over the whole table, the way a caller would check it -/
theorem C08_never_nan_all (h : HypM ax cb cu) {a : Tab (XQ f) m}
    (he : mbr (liftT ax : Tab (XQ f) n) (condTab cb cu f) = some a) :
    a.toList.all (fun v => !Scalar.isNaN v) = true := by
  obtain ⟨ay, e, _, _⟩ := C08_some_dist h he
  subst e
  unfold liftT
  rw [Vector.toList_ofFn, List.all_eq_true]
  intro v hv
  obtain ⟨y, rfl⟩ := List.mem_ofFn.mp hv
  rfl

/-! ### 3. the fixed-point equation -/

/-- closed form: `a(y) = Σ_x a(x) (b_{y|x} + a(y) u_{Y|x})` -/
theorem C08_fixed_point_closed (h : HypM ax cb cu) (hS : S ax cu ≠ 0) (y : Fin m) :
    may ax cb cu y = ∑ x, ax x * (cb x y + may ax cb cu y * cu x) :=
  may_fixed h hS y

/-- a returned base rate `a` satisfies `a(y) = Σ_x a(x) P(y|x)` with `P(y|x)` projected with that `a` -/
theorem C08_fixed_point (h : HypM ax cb cu) {a : Tab (XQ f) m}
    (he : mbr (liftT ax : Tab (XQ f) n) (condTab cb cu f) = some a) :
    ∃ ay : Fin m → ℚ, a = liftT ay ∧ (∀ y, 0 ≤ ay y) ∧ ∑ y, ay y = 1 ∧
      ∀ y, ay y = ∑ x, ax x * (cb x y + ay y * cu x) := by
  obtain ⟨_, hS, e⟩ := C08_some_inv h he
  exact ⟨may ax cb cu, e, may_nonneg h, sum_may h hS, may_fixed h hS⟩

/-- … stated on the model: the returned table is `Σ_x a(x) · projection(cond x, a)(y)` -/
theorem C08_fixed_point_model (h : HypM ax cb cu) {a : Tab (XQ f) m}
    (he : mbr (liftT ax : Tab (XQ f) n) (condTab cb cu f) = some a) :
    a = Vector.ofFn fun y : Fin m => Tab.sumIter (Vector.ofFn fun x : Fin n =>
          (liftT ax : Tab (XQ f) n)[x] * ((projections (condTab cb cu f) a)[x])[y]) := by
  obtain ⟨_, hS, e⟩ := C08_some_inv h he
  subst e
  have hy : Hyp (fun _ : Fin n => 0) ax 1 cb cu (may ax cb cu) :=
    hyp_of_may (fun _ => le_refl 0) zero_le_one (by simp) h hS
  rw [pyhx_lift hy]
  congr 1
  funext y
  exact may_fixed h hS y

/-- the equation has no other solution when `S ≠ 0` -/
theorem C08_fixed_point_unique (h : HypM ax cb cu) (hS : S ax cu ≠ 0) (a' : Fin m → ℚ)
    (hfix : ∀ y, a' y = ∑ x, ax x * (cb x y + a' y * cu x)) : a' = may ax cb cu :=
  fixed_unique h hS a' hfix

/-! ### 4. when the result is absent -/

/-- without any restriction on the table: absent iff every conditional passes the vacuity guard or no
    belief mass is carried at a positive base rate -/
theorem C08_none_iff_general (h : HypM ax cb cu) :
    mbr (liftT ax : Tab (XQ f) n) (condTab cb cu f) = none
      ↔ (∀ x, 1 - 2 * f.eps ≤ cu x) ∨ ∑ x, ax x * (1 - cu x) = 0 := by
  constructor
  · intro he
    by_contra hc
    have hc' : ¬ (AllVac f cu ∨ S ax cu = 0) := hc
    rw [mbr_lift h, if_neg hc'] at he
    cases he
  · exact C08_lift_none h

/-- in the extra case (all conditionals within 2ε of vacuous, yet belief carried) the weight is tiny -/
theorem C08_none_within (h : HypM ax cb cu) (hv : ∀ x, 1 - 2 * f.eps ≤ cu x)
    (hS : ∑ x, ax x * (1 - cu x) ≠ 0) :
    0 < ∑ x, ax x * (1 - cu x) ∧ ∑ x, ax x * (1 - cu x) ≤ 2 * f.eps :=
  ⟨lt_of_le_of_ne (S_nonneg h) (Ne.symm hS), S_le_of_allVac h hv⟩

/-- for plain tables: absent iff no belief weight at positive base rate -/
theorem C08_none_iff (h : HypM ax cb cu) (hp : Plain f cu) :
    mbr (liftT ax : Tab (XQ f) n) (condTab cb cu f) = none ↔ ∑ x, ax x * (1 - cu x) = 0 := by
  rw [C08_none_iff_general h]
  constructor
  · rintro (hv | hS)
    · exact S_zero_of_all_one (allVac_plain hp hv)
    · exact hS
  · exact Or.inr

/-- … iff every conditional with a positive base rate carries no belief mass -/
theorem C08_none_iff_no_informative (h : HypM ax cb cu) (hp : Plain f cu) :
    mbr (liftT ax : Tab (XQ f) n) (condTab cb cu f) = none ↔ ∀ x, 0 < ax x → cu x = 1 := by
  rw [C08_none_iff h hp]
  exact S_eq_zero_iff h

/-- … equivalently (no plainness needed for the arithmetic): `S = 0` iff all belief masses of
    conditionals with positive base rate are zero -/
theorem C08_S_zero_iff (h : HypM ax cb cu) :
    ∑ x, ax x * (1 - cu x) = 0 ↔ ∀ x, 0 < ax x → ∀ y, cb x y = 0 := by
  rw [show ∑ x, ax x * (1 - cu x) = S ax cu from rfl, S_eq_zero_iff h]
  constructor
  · intro hz x hx y
    have hs := h.hcs x
    rw [hz x hx] at hs
    have h0 : ∑ y, cb x y = 0 := by linarith
    exact (Finset.sum_eq_zero_iff_of_nonneg fun y _ => h.hcb x y).mp h0 y (Finset.mem_univ y)
  · intro hz x hx
    have hs := h.hcs x
    rw [Finset.sum_eq_zero fun y _ => hz x hx y] at hs
    linarith

/-- in particular: all conditionals vacuous -/
theorem C08_all_vacuous_none (h : HypM ax cb cu) (h1 : ∀ x, cu x = 1) :
    mbr (liftT ax : Tab (XQ f) n) (condTab cb cu f) = none :=
  C08_lift_none h (Or.inr (S_zero_of_all_one h1))

/-- a present result is exactly: some conditional fails the guard and some conditional with positive
    base rate carries belief -/
theorem C08_some_iff (h : HypM ax cb cu) :
    (∃ a, mbr (liftT ax : Tab (XQ f) n) (condTab cb cu f) = some a)
      ↔ (∃ x, cu x < 1 - 2 * f.eps) ∧ ∃ x, 0 < ax x ∧ cu x < 1 := by
  constructor
  · rintro ⟨a, he⟩
    obtain ⟨hv, hS, _⟩ := C08_some_inv h he
    constructor
    · unfold AllVac at hv
      push Not at hv
      exact hv
    · rw [Ne, S_eq_zero_iff h] at hS
      push Not at hS
      obtain ⟨x, hx, hne⟩ := hS
      exact ⟨x, hx, lt_of_le_of_ne (cu_le_one h x) hne⟩
  · rintro ⟨⟨x, hx⟩, ⟨x', hx', hlt⟩⟩
    refine ⟨_, C08_lift_some h (fun hv => absurd (hv x) (not_le.mpr hx)) ?_⟩
    rw [Ne, S_eq_zero_iff h]
    intro hz
    exact absurd (hz x' hx') (ne_of_lt hlt)

/-! ### 5. deduction without a fallback -/

section generic
variable {α : Type} [Scalar α]

/-- `deduce` is absent exactly when `mbr` is (any scalar type, any input) -/
theorem C08_deduce_none_iff (w : Opinion α n) (conds : CondTab α n m) :
    deduce w conds = none ↔ mbr w.a conds = none := by
  unfold deduce
  cases mbr w.a conds <;> simp

/-- otherwise it is `deduceOf` with the marginal base rate -/
theorem C08_deduce_some (w : Opinion α n) (conds : CondTab α n m) (ay : Tab α m)
    (he : mbr w.a conds = some ay) : deduce w conds = some (deduceOf w conds ay) := by
  unfold deduce
  rw [he]

/-! ### 6. deduction with a fallback -/

/-- the fallback closure is evaluated iff `mbr` is absent -/
theorem C08_fallback_lazy (w : Opinion α n) (conds : CondTab α n m) (fb : Unit → Tab α m) :
    (deduceWith w conds fb).2 = true ↔ mbr w.a conds = none := by
  unfold deduceWith
  cases mbr w.a conds <;> simp

/-- absent `mbr`: the fallback value is used as the base rate -/
theorem C08_fallback_none (w : Opinion α n) (conds : CondTab α n m) (fb : Unit → Tab α m)
    (he : mbr w.a conds = none) :
    deduceWith w conds fb = (deduceOf w conds (fb ()), true) := by
  unfold deduceWith
  rw [he]

/-- present `mbr`: the result is the one of `deduce`, for EVERY fallback (it is not consulted) -/
theorem C08_fallback_some (w : Opinion α n) (conds : CondTab α n m) (ay : Tab α m)
    (he : mbr w.a conds = some ay) (fb : Unit → Tab α m) :
    deduceWith w conds fb = (deduceOf w conds ay, false) := by
  unfold deduceWith
  rw [he]

/-- … so two fallbacks give the same result -/
theorem C08_fallback_irrelevant (w : Opinion α n) (conds : CondTab α n m) (ay : Tab α m)
    (he : mbr w.a conds = some ay) (fb fb' : Unit → Tab α m) :
    deduceWith w conds fb = deduceWith w conds fb' := by
  rw [C08_fallback_some w conds ay he fb, C08_fallback_some w conds ay he fb']

/-- `deduce` and `deduceWith` agree whenever `deduce` returns something -/
theorem C08_deduce_with_agrees (w : Opinion α n) (conds : CondTab α n m) (fb : Unit → Tab α m)
    (o : Opinion α m) (he : deduce w conds = some o) : (deduceWith w conds fb).1 = o := by
  unfold deduce at he
  unfold deduceWith
  cases hm : mbr w.a conds <;> rw [hm] at he <;> simp_all

/-! ### 7. abduction without a fallback -/

/-- `abduce` is absent exactly when `mbr` is -/
theorem C08_abduce_none_iff (wy : Simplex α m) (conds : CondTab α n m) (ax : Tab α n) :
    abduce wy conds ax = none ↔ mbr ax conds = none := by
  unfold abduce
  cases mbr ax conds <;> simp

theorem C08_abduce_some (wy : Simplex α m) (conds : CondTab α n m) (ax : Tab α n) (ay : Tab α m)
    (he : mbr ax conds = some ay) : abduce wy conds ax = some (abduceWith wy conds ax ay) := by
  unfold abduce
  rw [he]

end generic

/-! ### 5'–7'. the same on lifted well-formed inputs, with the characterisation of (4) -/

variable {bx : Fin n → ℚ} {ux : ℚ}

theorem C08_deduce_none_char (h : HypM ax cb cu) :
    deduce (⟨liftT bx, XQ.fin ux, liftT ax⟩ : Opinion (XQ f) n) (condTab cb cu f) = none
      ↔ (∀ x, 1 - 2 * f.eps ≤ cu x) ∨ ∑ x, ax x * (1 - cu x) = 0 := by
  rw [C08_deduce_none_iff]
  exact C08_none_iff_general h

theorem C08_deduce_none_plain (h : HypM ax cb cu) (hp : Plain f cu) :
    deduce (⟨liftT bx, XQ.fin ux, liftT ax⟩ : Opinion (XQ f) n) (condTab cb cu f) = none
      ↔ ∀ x, 0 < ax x → cu x = 1 := by
  rw [C08_deduce_none_iff]
  exact C08_none_iff_no_informative h hp

/-- when present, the marginal base rate satisfies C04's hypothesis bundle, so that all of C04's
    theorems apply to the deduced opinion -/
theorem C08_deduce_hyp (hw : WF bx ux ax) (h : HypM ax cb cu) (hS : S ax cu ≠ 0) :
    Hyp bx ax ux cb cu (may ax cb cu) :=
  hyp_of_may hw.hb hw.hu hw.hs h hS

/-- `deduce` on lifted inputs: `deduceOf` with the closed-form marginal base rate, which by C04 is the
    lifted well-formed opinion `(bRes, uRes, may)` -/
theorem C08_deduce_lift (hw : WF bx ux ax) (h : HypM ax cb cu) (hv : ¬ AllVac f cu)
    (hS : S ax cu ≠ 0) :
    deduce (⟨liftT bx, XQ.fin ux, liftT ax⟩ : Opinion (XQ f) n) (condTab cb cu f)
      = some (deduceOf (⟨liftT bx, XQ.fin ux, liftT ax⟩ : Opinion (XQ f) n) (condTab cb cu f)
          (liftT (may ax cb cu))) ∧
    deduceOf (⟨liftT bx, XQ.fin ux, liftT ax⟩ : Opinion (XQ f) n) (condTab cb cu f)
        (liftT (may ax cb cu))
      = ⟨liftT (bRes bx ax ux cb cu (may ax cb cu)), XQ.fin (uRes bx ax ux cb cu (may ax cb cu)),
          liftT (may ax cb cu)⟩ :=
  ⟨C08_deduce_some (⟨liftT bx, XQ.fin ux, liftT ax⟩ : Opinion (XQ f) n) (condTab cb cu f)
      (liftT (may ax cb cu)) (C08_lift_some h hv hS),
    SLV.Props.C04.C04_refines (C08_deduce_hyp hw h hS)⟩

/-- `deduceWith` on lifted inputs: the flag, and the result for every fallback -/
theorem C08_fallback_lift (h : HypM ax cb cu) (fb : Unit → Tab (XQ f) m) :
    ((AllVac f cu ∨ S ax cu = 0) →
      deduceWith (⟨liftT bx, XQ.fin ux, liftT ax⟩ : Opinion (XQ f) n) (condTab cb cu f) fb
        = (deduceOf ⟨liftT bx, XQ.fin ux, liftT ax⟩ (condTab cb cu f) (fb ()), true)) ∧
    (¬ (AllVac f cu ∨ S ax cu = 0) →
      deduceWith (⟨liftT bx, XQ.fin ux, liftT ax⟩ : Opinion (XQ f) n) (condTab cb cu f) fb
        = (deduceOf ⟨liftT bx, XQ.fin ux, liftT ax⟩ (condTab cb cu f) (liftT (may ax cb cu)),
            false)) := by
  constructor
  · intro hc
    exact C08_fallback_none (⟨liftT bx, XQ.fin ux, liftT ax⟩ : Opinion (XQ f) n) (condTab cb cu f)
      fb (C08_lift_none h hc)
  · intro hc
    exact C08_fallback_some (⟨liftT bx, XQ.fin ux, liftT ax⟩ : Opinion (XQ f) n) (condTab cb cu f)
      (liftT (may ax cb cu))
      (C08_lift_some h (fun hv => hc (Or.inl hv)) (fun hS => hc (Or.inr hS))) fb

theorem C08_abduce_none_char (h : HypM ax cb cu) (wy : Simplex (XQ f) m) :
    abduce wy (condTab cb cu f) (liftT ax) = none
      ↔ (∀ x, 1 - 2 * f.eps ≤ cu x) ∨ ∑ x, ax x * (1 - cu x) = 0 := by
  rw [C08_abduce_none_iff]
  exact C08_none_iff_general h

theorem C08_abduce_none_plain (h : HypM ax cb cu) (hp : Plain f cu) (wy : Simplex (XQ f) m) :
    abduce wy (condTab cb cu f) (liftT ax) = none ↔ ∀ x, 0 < ax x → cu x = 1 := by
  rw [C08_abduce_none_iff]
  exact C08_none_iff_no_informative h hp

/-! ### 9. non-vacuity -/

theorem eps_small (f : Fmt) : f.eps < 1 / 8 := by
  unfold Fmt.eps
  cases f
  · show (1 : ℚ) / ((2 ^ 23 : ℕ) : ℚ) < 1 / 8
    norm_num
  · show (1 : ℚ) / ((2 ^ 52 : ℕ) : ℚ) < 1 / 8
    norm_num

/-- the pinned table: the only informative conditional sits at a zero base-rate entry, the other one
    is vacuous; the hypotheses hold, the table is plain, `S = 0` -/
example : HypM (n := 2) (m := 2) ![0, 1] ![![1/2, 1/4], ![0, 0]] ![1/4, 1] := by
  (constructor <;> simp [Fin.sum_univ_two, Fin.forall_fin_two]); norm_num

example : Plain (n := 2) f ![1/4, 1] := by
  have := eps_small f
  unfold Plain
  rw [Fin.forall_fin_two]
  refine ⟨Or.inr ?_, Or.inl ?_⟩
  · simp; linarith
  · simp

/-- … and `mbr` is absent (not `[NaN, NaN]` as at the pinned commit) although the first conditional
    is not vacuous -/
example : mbr (liftT ![0, 1] : Tab (XQ f) 2) (condTab ![![1/2, 1/4], ![0, 0]] ![1/4, 1] f) = none := by
  apply C08_lift_none
  · (constructor <;> simp [Fin.sum_univ_two, Fin.forall_fin_two]); norm_num
  · right; simp [S, Fin.sum_univ_two]

/-- a mixed table: one informative conditional at base rate 1/3, one vacuous: `S = 1/4`, present,
    equal to (2/3, 1/3) -/
example : mbr (liftT ![1/3, 2/3] : Tab (XQ f) 2) (condTab ![![1/2, 1/4], ![0, 0]] ![1/4, 1] f)
    = some (liftT ![2/3, 1/3]) := by
  have hm : HypM (n := 2) (m := 2) ![1/3, 2/3] ![![1/2, 1/4], ![0, 0]] ![1/4, 1] := by
    constructor <;> simp [Fin.sum_univ_two, Fin.forall_fin_two] <;> norm_num
  have hS : S (n := 2) ![1/3, 2/3] ![1/4, 1] = 1 / 4 := by
    simp [S, Fin.sum_univ_two]; norm_num
  rw [C08_lift_some hm ?_ (by rw [hS]; norm_num)]
  · congr 2
    funext y
    revert y
    rw [Fin.forall_fin_two]
    unfold may
    rw [hS]
    (constructor <;> simp [raw, Fin.sum_univ_two]); norm_num
  · intro hv
    have := hv 0
    have := eps_small f
    simp at *
    linarith

/-- … and with a well-formed antecedent `deduce` returns the C04 closed form for that base rate -/
example : ∃ o, deduce (⟨liftT ![1/2, 1/4], XQ.fin (1/4), liftT ![1/3, 2/3]⟩ : Opinion (XQ f) 2)
    (condTab ![![1/2, 1/4], ![0, 0]] ![1/4, 1] f) = some o ∧ o.a = liftT ![2/3, 1/3] := by
  have hm : HypM (n := 2) (m := 2) ![1/3, 2/3] ![![1/2, 1/4], ![0, 0]] ![1/4, 1] := by
    constructor <;> simp [Fin.sum_univ_two, Fin.forall_fin_two] <;> norm_num
  have hw : WF (n := 2) ![1/2, 1/4] (1/4) ![1/3, 2/3] := by
    constructor <;> simp [Fin.sum_univ_two, Fin.forall_fin_two] <;> norm_num
  have hS : S (n := 2) ![1/3, 2/3] ![1/4, 1] = 1 / 4 := by
    simp [S, Fin.sum_univ_two]; norm_num
  have hv : ¬ AllVac (n := 2) f ![1/4, 1] := by
    intro hv
    have := hv 0
    have := eps_small f
    simp at *
    linarith
  obtain ⟨e1, e2⟩ := C08_deduce_lift (f := f) hw hm hv (by rw [hS]; norm_num)
  refine ⟨_, e1, ?_⟩
  rw [e2]
  show liftT _ = liftT _
  congr 1
  funext y
  revert y
  rw [Fin.forall_fin_two]
  unfold may
  rw [hS]
  (constructor <;> simp [raw, Fin.sum_univ_two]); norm_num

/-- witness for the tolerance band: both conditionals carry belief `ε` at positive base rate, yet all
    pass the vacuity guard and `mbr` is absent with `S = ε ≠ 0` -/
theorem C08_band_witness :
    HypM (n := 2) (m := 2) ![1/2, 1/2] ![![f.eps, 0], ![0, f.eps]] ![1 - f.eps, 1 - f.eps] ∧
    S (n := 2) ![1/2, 1/2] ![1 - f.eps, 1 - f.eps] = f.eps ∧
    mbr (liftT ![1/2, 1/2] : Tab (XQ f) 2)
      (condTab ![![f.eps, 0], ![0, f.eps]] ![1 - f.eps, 1 - f.eps] f) = none := by
  have he := XQ.eps_pos f
  have hs := eps_small f
  have hm : HypM (n := 2) (m := 2) ![1/2, 1/2] ![![f.eps, 0], ![0, f.eps]]
      ![1 - f.eps, 1 - f.eps] := by
    constructor <;> simp [Fin.sum_univ_two, Fin.forall_fin_two] <;> linarith
  refine ⟨hm, ?_, ?_⟩
  · simp [S, Fin.sum_univ_two]; ring
  · apply C08_lift_none hm
    left
    unfold AllVac
    rw [Fin.forall_fin_two]
    constructor <;> simp <;> linarith

end SLV.Props.C08
