/-
  C06 — The product of two or three well-formed opinions on independent variables is a well-formed
  opinion on the Cartesian product domain whose base rate and projected probability are the outer
  products of the factors' base rates and projected probabilities, and whose uncertainty is the largest
  value that keeps every joint belief mass at least the product of the factors' belief masses.
  Swapping the factors transposes the result, vacuous factors give the vacuous product and dogmatic
  factors a dogmatic one.

  Property theorems only; helper lemmas and the rational closed forms live in
  SLV/Refine/C06Lemmas.lean.  With `(i, j) = idx2 k` the row-major split of the flat cell index
  `k : Fin (n0 * n1)` (`flat2 i j` is the inverse, value `i * n1 + j`):
    `P2 k = (b0 i + a0 i * u0) * (b1 j + a1 j * u1)`    joint projected probability  P0(i) P1(j)
    `A2 k = a0 i * a1 j`                                joint base rate
    `B2 k = b0 i * b1 j`                                product of the factors' belief masses
    `uhat2 = min_{k : A2 k > 0} (P2 k - B2 k) / A2 k`   joint uncertainty
    `bJ2 k = P2 k - A2 k * uhat2`                       joint belief mass
  and likewise `P3 A3 B3 uhat3 bJ3` with `(i, j, l) = idx3 k`, `flat3 i j l`.
  Both are instances of the abstract cell tables `Cell P A B` / `uhat P A B` / `bJ P A B` over `Fin N`.
  All statements are about the executable model `product2Raw/U/L`, `product3Raw/U/L`
  (SLV/Model/Prod.lean) at the exact semantics `XQ f`, for every `n0 n1 n2` (`0 < n_i` follows from
  `Σ a_i = 1`); the factors are `WF` in the sense of C09 (zero base-rate entries allowed: the model
  filters the cells with joint base rate `> 0` before the `min` reduction, `C06_cells_iff`, so such a
  cell contributes no candidate).
  Since repair abca806 the code evaluates the candidate `(P2 k - B2 k) / A2 k` of a cell in the expanded form
  `u0 (b1 j / a1 j + u1) + b0 i / a0 i * u1` (no cancellation); section 9 relates the two forms.  No statement of
  sections 1-8 changed.
  Since repair b817f74 every joint mass `P2 k - A2 k * û` is clamped at zero; on well-formed operands the clamp is idle
  (section 10), no statement of sections 1-9 changed.
-/
import SLV.Refine.C06Lemmas
import SLV.Props.C01
import Mathlib.Data.Fin.VecNotation

namespace SLV.Props.C06
open SLV Scalar SLV.C06 SLV.Props.C09

variable {f : Fmt} {n0 n1 n2 : Nat}
variable {b0 a0 : Fin n0 → ℚ} {u0 : ℚ} {b1 a1 : Fin n1 → ℚ} {u1 : ℚ} {b2 a2 : Fin n2 → ℚ} {u2 : ℚ}

/-! ## two factors -/

/-- the flat index and the cell coordinates are inverse to each other; `flat2 i j = i * n1 + j` -/
theorem C06_index (i : Fin n0) (j : Fin n1) (k : Fin (n0 * n1)) :
    idx2 (flat2 i j) = (i, j) ∧ flat2 (idx2 k).1 (idx2 k).2 = k ∧
    (flat2 i j).val = i.val * n1 + j.val :=
  ⟨idx2_flat2 i j, flat2_idx2 k, flat2_val i j⟩

/-- `uhat2` is the least `(P - B)/A` over the cells with positive joint base rate; cells with
    `A = 0` (which the model filters out before the reduction) do not take part -/
theorem C06_uhat_char (h0 : WF b0 u0 a0) (h1 : WF b1 u1 a1) :
    (∀ k, 0 < A2 a0 a1 k → uhat2 b0 u0 a0 b1 u1 a1
        ≤ (P2 b0 u0 a0 b1 u1 a1 k - B2 b0 b1 k) / A2 a0 a1 k) ∧
    ∃ k, 0 < A2 a0 a1 k ∧ uhat2 b0 u0 a0 b1 u1 a1
        = (P2 b0 u0 a0 b1 u1 a1 k - B2 b0 b1 k) / A2 a0 a1 k :=
  uhat_spec (cell2 h0 h1)

/-- the same in cell coordinates, nothing hidden in definitions -/
theorem C06_uhat_char_ij (h0 : WF b0 u0 a0) (h1 : WF b1 u1 a1) :
    (∀ i j, 0 < a0 i * a1 j → uhat2 b0 u0 a0 b1 u1 a1
        ≤ ((b0 i + a0 i * u0) * (b1 j + a1 j * u1) - b0 i * b1 j) / (a0 i * a1 j)) ∧
    ∃ i j, 0 < a0 i * a1 j ∧ uhat2 b0 u0 a0 b1 u1 a1
        = ((b0 i + a0 i * u0) * (b1 j + a1 j * u1) - b0 i * b1 j) / (a0 i * a1 j) := by
  obtain ⟨s1, k, hk, e⟩ := C06_uhat_char h0 h1
  constructor
  · intro i j hij
    have := s1 (flat2 i j) (by unfold A2; rw [idx2_flat2]; exact hij)
    unfold P2 A2 B2 at this
    rw [idx2_flat2] at this
    exact this
  · exact ⟨(idx2 k).1, (idx2 k).2, hk, e⟩

/-- the characterisation determines the value -/
theorem C06_uhat_unique_ij (h0 : WF b0 u0 a0) (h1 : WF b1 u1 a1) (q : ℚ)
    (hle : ∀ i j, 0 < a0 i * a1 j →
      q ≤ ((b0 i + a0 i * u0) * (b1 j + a1 j * u1) - b0 i * b1 j) / (a0 i * a1 j))
    (hat : ∃ i j, 0 < a0 i * a1 j ∧
      q = ((b0 i + a0 i * u0) * (b1 j + a1 j * u1) - b0 i * b1 j) / (a0 i * a1 j)) :
    q = uhat2 b0 u0 a0 b1 u1 a1 := by
  apply uhat_unique (cell2 h0 h1)
  · intro k hk; exact hle _ _ hk
  · obtain ⟨i, j, hij, e⟩ := hat
    refine ⟨flat2 i j, ?_, ?_⟩
    · unfold A2; rw [idx2_flat2]; exact hij
    · unfold ucand P2 A2 B2; rw [idx2_flat2]; exact e

/-- the cells the model's `filter(a > 0)` keeps are exactly those with a positive joint base rate;
    a zero-base-rate cell is skipped -/
theorem C06_cells_iff (a0 : Fin n0 → ℚ) (a1 : Fin n1 → ℚ) (k : Fin (n0 * n1)) :
    k ∈ ((List.finRange (n0 * n1)).filter fun k =>
        Scalar.gt (outer2 (liftT a0 : Tab (XQ f) n0) (liftT a1))[k] Scalar.zero)
      ↔ 0 < a0 (idx2 k).1 * a1 (idx2 k).2 := by
  rw [outer2_lift]
  exact mem_cells_iff _ k

/-- 1. the model on lifted well-formed factors returns lifted rational data: only cells with a
    positive joint base rate pass the model's filter, so every division has a non-zero denominator, and
    at least one cell passes (`Σ A = 1`), so the `reduce` is not empty; both projections are normalised
    by exactly 1 -/
theorem C06_refines (h0 : WF b0 u0 a0) (h1 : WF b1 u1 a1) :
    product2Raw (⟨liftT b0, XQ.fin u0, liftT a0⟩ : Opinion (XQ f) n0) ⟨liftT b1, XQ.fin u1, liftT a1⟩
      = ⟨liftT (bJ2 b0 u0 a0 b1 u1 a1), XQ.fin (uhat2 b0 u0 a0 b1 u1 a1), liftT (A2 a0 a1)⟩ :=
  product2Raw_lift h0 h1

/-- the same statement with every closed form spelled out (no auxiliary definitions) -/
theorem C06_refines_explicit (h0 : WF b0 u0 a0) (h1 : WF b1 u1 a1) :
    ∃ uh : ℚ,
      (∀ i j, 0 < a0 i * a1 j →
        uh ≤ ((b0 i + a0 i * u0) * (b1 j + a1 j * u1) - b0 i * b1 j) / (a0 i * a1 j)) ∧
      (∃ i j, 0 < a0 i * a1 j ∧
        uh = ((b0 i + a0 i * u0) * (b1 j + a1 j * u1) - b0 i * b1 j) / (a0 i * a1 j)) ∧
      product2Raw (⟨liftT b0, XQ.fin u0, liftT a0⟩ : Opinion (XQ f) n0)
          ⟨liftT b1, XQ.fin u1, liftT a1⟩
        = ⟨liftT (fun k => (b0 (idx2 k).1 + a0 (idx2 k).1 * u0) * (b1 (idx2 k).2 + a1 (idx2 k).2 * u1)
              - a0 (idx2 k).1 * a1 (idx2 k).2 * uh),
           XQ.fin uh, liftT (fun k => a0 (idx2 k).1 * a1 (idx2 k).2)⟩ :=
  ⟨uhat2 b0 u0 a0 b1 u1 a1, (C06_uhat_char_ij h0 h1).1, (C06_uhat_char_ij h0 h1).2, C06_refines h0 h1⟩

/-- the entries of the result at cell `(i, j)` -/
theorem C06_entries (h0 : WF b0 u0 a0) (h1 : WF b1 u1 a1) (i : Fin n0) (j : Fin n1) :
    let r := product2Raw (⟨liftT b0, XQ.fin u0, liftT a0⟩ : Opinion (XQ f) n0)
      ⟨liftT b1, XQ.fin u1, liftT a1⟩
    r.b[flat2 i j] = XQ.fin ((b0 i + a0 i * u0) * (b1 j + a1 j * u1)
        - a0 i * a1 j * uhat2 b0 u0 a0 b1 u1 a1) ∧
    r.u = XQ.fin (uhat2 b0 u0 a0 b1 u1 a1) ∧
    r.a[flat2 i j] = XQ.fin (a0 i * a1 j) := by
  intro r
  have e : r = _ := C06_refines h0 h1
  rw [e]
  refine ⟨?_, rfl, ?_⟩
  · show (liftT _ : Tab (XQ f) _)[flat2 i j] = _
    rw [liftT_getElem]; unfold bJ2 bJ P2 A2; rw [idx2_flat2]; rfl
  · show (liftT _ : Tab (XQ f) _)[flat2 i j] = _
    rw [liftT_getElem]; unfold A2; rw [idx2_flat2]

/-- 2a. the base rate of the result is the outer product of the factors' base rates -/
theorem C06_outer_base_rate (b0 a0 : Fin n0 → ℚ) (u0 : ℚ) (b1 a1 : Fin n1 → ℚ) (u1 : ℚ) :
    (product2Raw (⟨liftT b0, XQ.fin u0, liftT a0⟩ : Opinion (XQ f) n0)
        ⟨liftT b1, XQ.fin u1, liftT a1⟩).a = outer2 (liftT a0) (liftT a1) ∧
    outer2 (liftT a0 : Tab (XQ f) n0) (liftT a1) = liftT (fun k => a0 (idx2 k).1 * a1 (idx2 k).2) :=
  ⟨rfl, outer2_lift a0 a1⟩

/-- 2b. projected probability of the closed form: `b(i,j) + a(i,j) û = P0(i) P1(j)` -/
theorem C06_outer (b0 a0 : Fin n0 → ℚ) (u0 : ℚ) (b1 a1 : Fin n1 → ℚ) (u1 : ℚ) (k : Fin (n0 * n1)) :
    bJ2 b0 u0 a0 b1 u1 a1 k + A2 a0 a1 k * uhat2 b0 u0 a0 b1 u1 a1
      = (b0 (idx2 k).1 + a0 (idx2 k).1 * u0) * (b1 (idx2 k).2 + a1 (idx2 k).2 * u1) := by
  unfold bJ2 bJ uhat2
  show P2 b0 u0 a0 b1 u1 a1 k - _ + _ = P2 b0 u0 a0 b1 u1 a1 k
  ring

/-- 3. the result is well-formed, and every joint belief mass is at least the product of the factors'
    belief masses -/
theorem C06_wf (h0 : WF b0 u0 a0) (h1 : WF b1 u1 a1) :
    (∀ k, B2 b0 b1 k ≤ bJ2 b0 u0 a0 b1 u1 a1 k) ∧ (∀ k, 0 ≤ B2 b0 b1 k) ∧
    0 ≤ uhat2 b0 u0 a0 b1 u1 a1 ∧ uhat2 b0 u0 a0 b1 u1 a1 ≤ 1 ∧
    ∑ k, bJ2 b0 u0 a0 b1 u1 a1 k + uhat2 b0 u0 a0 b1 u1 a1 = 1 ∧
    (∀ k, 0 ≤ A2 a0 a1 k) ∧ ∑ k, A2 a0 a1 k = 1 := by
  have c := cell2 h0 h1
  exact ⟨bJ_ge c, c.hB, uhat_nonneg c, uhat_le_one c, sum_bJ c, c.hA, c.sA⟩

/-- … as an opinion over the product domain (the `WF` predicate of C09) -/
theorem C06_wf_opinion (h0 : WF b0 u0 a0) (h1 : WF b1 u1 a1) :
    WF (bJ2 b0 u0 a0 b1 u1 a1) (uhat2 b0 u0 a0 b1 u1 a1) (A2 a0 a1) :=
  (cell2 h0 h1).wf

/-- 2c. the projection of the raw product is the outer product of the factors' projections -/
theorem C06_outer_projection (h0 : WF b0 u0 a0) (h1 : WF b1 u1 a1) :
    (product2Raw (⟨liftT b0, XQ.fin u0, liftT a0⟩ : Opinion (XQ f) n0)
        ⟨liftT b1, XQ.fin u1, liftT a1⟩).projection
      = outer2 (Opinion.projection ⟨liftT b0, XQ.fin u0, liftT a0⟩)
          (Opinion.projection ⟨liftT b1, XQ.fin u1, liftT a1⟩) ∧
    (product2Raw (⟨liftT b0, XQ.fin u0, liftT a0⟩ : Opinion (XQ f) n0)
        ⟨liftT b1, XQ.fin u1, liftT a1⟩).projection
      = liftT (fun k => (b0 (idx2 k).1 + a0 (idx2 k).1 * u0) * (b1 (idx2 k).2 + a1 (idx2 k).2 * u1)) := by
  have e2 : (product2Raw (⟨liftT b0, XQ.fin u0, liftT a0⟩ : Opinion (XQ f) n0)
        ⟨liftT b1, XQ.fin u1, liftT a1⟩).projection
      = liftT (fun k => (b0 (idx2 k).1 + a0 (idx2 k).1 * u0) * (b1 (idx2 k).2 + a1 (idx2 k).2 * u1)) := by
    rw [C06_refines h0 h1]
    unfold Opinion.projection
    rw [C09_projection (C06_wf_opinion h0 h1)]
    congr 1
    funext k
    exact C06_outer b0 a0 u0 b1 a1 u1 k
  refine ⟨?_, e2⟩
  rw [e2]
  unfold Opinion.projection
  rw [C09_projection h0, C09_projection h1, outer2_lift]

/-- 2d. labelled family: renormalising the base rate (its sum is exactly 1) changes nothing -/
theorem C06_labelled (h0 : WF b0 u0 a0) (h1 : WF b1 u1 a1) :
    product2L (⟨liftT b0, XQ.fin u0, liftT a0⟩ : Opinion (XQ f) n0) ⟨liftT b1, XQ.fin u1, liftT a1⟩
      = ⟨liftT (bJ2 b0 u0 a0 b1 u1 a1), XQ.fin (uhat2 b0 u0 a0 b1 u1 a1), liftT (A2 a0 a1)⟩ := by
  unfold product2L
  simp only [C06_refines h0 h1, normalize_id (cell2 h0 h1)]

/-- 2e. unlabelled family: `Opinion::new` accepts the exact result (no panic) and stores it unchanged -/
theorem C06_unlabelled_accepts (h0 : WF b0 u0 a0) (h1 : WF b1 u1 a1) :
    product2U (⟨liftT b0, XQ.fin u0, liftT a0⟩ : Opinion (XQ f) n0) ⟨liftT b1, XQ.fin u1, liftT a1⟩
      = .ok ⟨liftT (bJ2 b0 u0 a0 b1 u1 a1), XQ.fin (uhat2 b0 u0 a0 b1 u1 a1), liftT (A2 a0 a1)⟩ := by
  unfold product2U
  simp only [C06_refines h0 h1]
  have w := C06_wf_opinion h0 h1
  exact SLV.Props.C01.C01_accepts_wf _ _ _ w.hb w.hu w.hs w.ha0 w.ha

/-- 4. maximality: any larger uncertainty (with the same projected probabilities) pushes some joint
    belief mass below the product of the factors' belief masses -/
theorem C06_max_u (h0 : WF b0 u0 a0) (h1 : WF b1 u1 a1) (u' : ℚ)
    (hu : uhat2 b0 u0 a0 b1 u1 a1 < u') :
    ∃ k, P2 b0 u0 a0 b1 u1 a1 k - A2 a0 a1 k * u' < B2 b0 b1 k :=
  max_u (cell2 h0 h1) u' hu

/-- … and in cell coordinates -/
theorem C06_max_u_ij (h0 : WF b0 u0 a0) (h1 : WF b1 u1 a1) (u' : ℚ)
    (hu : uhat2 b0 u0 a0 b1 u1 a1 < u') :
    ∃ i j, (b0 i + a0 i * u0) * (b1 j + a1 j * u1) - a0 i * a1 j * u' < b0 i * b1 j := by
  obtain ⟨k, hk⟩ := C06_max_u h0 h1 u' hu
  exact ⟨(idx2 k).1, (idx2 k).2, hk⟩

/-- the joint uncertainty is at least the product of the factors' uncertainties -/
theorem C06_u_ge_prod (h0 : WF b0 u0 a0) (h1 : WF b1 u1 a1) :
    u0 * u1 ≤ uhat2 b0 u0 a0 b1 u1 a1 := by
  obtain ⟨i, j, hij, e⟩ := (C06_uhat_char_ij h0 h1).2
  rw [e, le_div_iff₀ hij]
  have t1 := mul_nonneg (mul_nonneg (h0.hb i) (h1.ha0 j)) h1.hu
  have t2 := mul_nonneg (mul_nonneg (h0.ha0 i) h0.hu) (h1.hb j)
  nlinarith

/-! ## 5. swapping the factors transposes the result -/

theorem C06_transpose_u (h0 : WF b0 u0 a0) (h1 : WF b1 u1 a1) :
    uhat2 b1 u1 a1 b0 u0 a0 = uhat2 b0 u0 a0 b1 u1 a1 := by
  unfold uhat2
  apply uhat_congr (cell2 h0 h1) (cell2 h1 h0)
    (fun k => flat2 (idx2 k).2 (idx2 k).1) (fun k => flat2 (idx2 k).2 (idx2 k).1)
  · intro k
    unfold P2 A2 B2
    simp only [idx2_flat2]
    exact ⟨mul_comm _ _, mul_comm _ _, mul_comm _ _⟩
  · intro k
    unfold P2 A2 B2
    simp only [idx2_flat2]
    exact ⟨mul_comm _ _, mul_comm _ _, mul_comm _ _⟩

/-- the product with the factors swapped is the transpose: same uncertainty, and the belief mass and
    base rate at cell `(j, i)` are those of the original at cell `(i, j)` -/
theorem C06_transpose (h0 : WF b0 u0 a0) (h1 : WF b1 u1 a1) (i : Fin n0) (j : Fin n1) :
    let r := product2Raw (⟨liftT b0, XQ.fin u0, liftT a0⟩ : Opinion (XQ f) n0)
      ⟨liftT b1, XQ.fin u1, liftT a1⟩
    let r' := product2Raw (⟨liftT b1, XQ.fin u1, liftT a1⟩ : Opinion (XQ f) n1)
      ⟨liftT b0, XQ.fin u0, liftT a0⟩
    r'.u = r.u ∧ r'.b[flat2 j i] = r.b[flat2 i j] ∧ r'.a[flat2 j i] = r.a[flat2 i j] := by
  intro r r'
  obtain ⟨e1, e2, e3⟩ := C06_entries (f := f) h0 h1 i j
  obtain ⟨e1', e2', e3'⟩ := C06_entries (f := f) h1 h0 j i
  refine ⟨?_, ?_, ?_⟩
  · show r'.u = r.u
    rw [e2, e2', C06_transpose_u h0 h1]
  · show r'.b[flat2 j i] = r.b[flat2 i j]
    rw [e1, e1', C06_transpose_u h0 h1]
    congr 1; ring
  · show r'.a[flat2 j i] = r.a[flat2 i j]
    rw [e3, e3']
    congr 1; ring

/-- the transposition of indices used above is a bijection between the two flattened domains -/
theorem C06_transpose_index (k : Fin (n0 * n1)) :
    flat2 (idx2 (flat2 (idx2 k).2 (idx2 k).1)).2 (idx2 (flat2 (idx2 k).2 (idx2 k).1)).1 = k := by
  simp

/-! ## 6. vacuous and dogmatic factors -/

theorem vacuous_b {n : Nat} {b a : Fin n → ℚ} {u : ℚ} (h : WF b u a) (h1 : u = 1) : ∀ i, b i = 0 := by
  have hs := h.hs
  have hz : ∑ i, b i = 0 := by linarith
  intro i
  exact (Finset.sum_eq_zero_iff_of_nonneg fun i _ => h.hb i).mp hz i (Finset.mem_univ i)

/-- both factors vacuous: the product is the vacuous opinion over the joint domain -/
theorem C06_vacuous (h0 : WF b0 u0 a0) (h1 : WF b1 u1 a1) (hv0 : u0 = 1) (hv1 : u1 = 1) :
    uhat2 b0 u0 a0 b1 u1 a1 = 1 ∧ (∀ k, bJ2 b0 u0 a0 b1 u1 a1 k = 0) ∧
    product2Raw (⟨liftT b0, XQ.fin u0, liftT a0⟩ : Opinion (XQ f) n0) ⟨liftT b1, XQ.fin u1, liftT a1⟩
      = ⟨liftT (fun _ => 0), XQ.fin 1, liftT (A2 a0 a1)⟩ ∧
    (product2Raw (⟨liftT b0, XQ.fin u0, liftT a0⟩ : Opinion (XQ f) n0)
      ⟨liftT b1, XQ.fin u1, liftT a1⟩).isVacuous = true := by
  have z0 := vacuous_b h0 hv0
  have z1 := vacuous_b h1 hv1
  have hPA : ∀ k, P2 b0 u0 a0 b1 u1 a1 k = A2 a0 a1 k := by
    intro k; unfold P2 A2; rw [z0, z1, hv0, hv1]; ring
  have hB0 : ∀ k, B2 b0 b1 k = 0 := by
    intro k; unfold B2; rw [z0, zero_mul]
  have hu : uhat2 b0 u0 a0 b1 u1 a1 = 1 := uhat_eq_one (cell2 h0 h1) hPA hB0
  have hb : ∀ k, bJ2 b0 u0 a0 b1 u1 a1 k = 0 := by
    intro k
    have := hu
    unfold uhat2 at this
    unfold bJ2 bJ; rw [this, hPA k]; ring
  have e : product2Raw (⟨liftT b0, XQ.fin u0, liftT a0⟩ : Opinion (XQ f) n0)
      ⟨liftT b1, XQ.fin u1, liftT a1⟩ = ⟨liftT (fun _ => 0), XQ.fin 1, liftT (A2 a0 a1)⟩ := by
    rw [C06_refines h0 h1, hu, funext hb]
  refine ⟨hu, hb, e, ?_⟩
  rw [e]
  have hp := XQ.eps_pos f
  show Scalar.isOne (XQ.fin 1 : XQ f) = true
  rw [XQ.isOne_fin, decide_eq_true_eq]
  constructor <;> linarith

/-- both factors dogmatic: the product is dogmatic, its belief masses are the products -/
theorem C06_dogmatic (h0 : WF b0 u0 a0) (h1 : WF b1 u1 a1) (hd0 : u0 = 0) (hd1 : u1 = 0) :
    uhat2 b0 u0 a0 b1 u1 a1 = 0 ∧ (∀ k, bJ2 b0 u0 a0 b1 u1 a1 k = B2 b0 b1 k) ∧
    product2Raw (⟨liftT b0, XQ.fin u0, liftT a0⟩ : Opinion (XQ f) n0) ⟨liftT b1, XQ.fin u1, liftT a1⟩
      = ⟨liftT (B2 b0 b1), XQ.fin 0, liftT (A2 a0 a1)⟩ ∧
    (product2Raw (⟨liftT b0, XQ.fin u0, liftT a0⟩ : Opinion (XQ f) n0)
      ⟨liftT b1, XQ.fin u1, liftT a1⟩).isDogmatic = true := by
  have hPB : ∀ k, P2 b0 u0 a0 b1 u1 a1 k = B2 b0 b1 k := by
    intro k; unfold P2 B2; rw [hd0, hd1]; ring
  have hu : uhat2 b0 u0 a0 b1 u1 a1 = 0 := uhat_eq_zero (cell2 h0 h1) hPB
  have hb : ∀ k, bJ2 b0 u0 a0 b1 u1 a1 k = B2 b0 b1 k := by
    intro k
    have := hu
    unfold uhat2 at this
    unfold bJ2 bJ; rw [this, hPB k]; ring
  have e : product2Raw (⟨liftT b0, XQ.fin u0, liftT a0⟩ : Opinion (XQ f) n0)
      ⟨liftT b1, XQ.fin u1, liftT a1⟩ = ⟨liftT (B2 b0 b1), XQ.fin 0, liftT (A2 a0 a1)⟩ := by
    rw [C06_refines h0 h1, hu, funext hb]
  refine ⟨hu, hb, e, ?_⟩
  rw [e]
  show Scalar.isZero (XQ.fin 0 : XQ f) = true
  rw [XQ.isZero_fin, decide_eq_true_eq]
  simpa using le_of_lt (XQ.eps_pos f)

theorem exists_pos {n : Nat} {b a : Fin n → ℚ} {u : ℚ} (h : WF b u a) : ∃ i, 0 < a i := by
  by_contra hne
  have : ∑ i, a i = 0 := by
    apply Finset.sum_eq_zero
    intro i _
    exact le_antisymm (not_lt.mp fun hi => hne ⟨i, hi⟩) (h.ha0 i)
  rw [h.ha] at this
  exact one_ne_zero this

/-- only the first factor vacuous: the joint uncertainty is the maximal uncertainty of the other factor
    (least `P1(j)/a1(j)` over `a1 j > 0`), in general NOT 1 -/
theorem C06_vacuous_left (h0 : WF b0 u0 a0) (h1 : WF b1 u1 a1) (hv0 : u0 = 1) :
    (∀ j, 0 < a1 j → uhat2 b0 u0 a0 b1 u1 a1 ≤ (b1 j + a1 j * u1) / a1 j) ∧
    (∃ j, 0 < a1 j ∧ uhat2 b0 u0 a0 b1 u1 a1 = (b1 j + a1 j * u1) / a1 j) := by
  have z0 := vacuous_b h0 hv0
  subst hv0
  obtain ⟨s1, i, j, hij, e⟩ := C06_uhat_char_ij h0 h1
  constructor
  · intro j hj
    obtain ⟨i0, hi0⟩ := exists_pos h0
    have := s1 i0 j (mul_pos hi0 hj)
    rw [z0 i0] at this
    have e2 : ((0 + a0 i0 * 1) * (b1 j + a1 j * u1) - 0 * b1 j) / (a0 i0 * a1 j)
        = (b1 j + a1 j * u1) / a1 j := by
      rw [div_eq_div_iff (ne_of_gt (mul_pos hi0 hj)) (ne_of_gt hj)]; ring
    rw [e2] at this; exact this
  · have hi : 0 < a0 i := by
      rcases lt_or_eq_of_le (h0.ha0 i) with h | h
      · exact h
      · rw [← h, zero_mul] at hij; exact absurd hij (lt_irrefl _)
    have hj : 0 < a1 j := by
      rcases lt_or_eq_of_le (h1.ha0 j) with h | h
      · exact h
      · rw [← h, mul_zero] at hij; exact absurd hij (lt_irrefl _)
    refine ⟨j, hj, ?_⟩
    rw [e, z0 i, div_eq_div_iff (ne_of_gt hij) (ne_of_gt hj)]; ring

/-- only the first factor dogmatic: the joint uncertainty is `u1` times the least `b0(i)/a0(i)` over
    `a0 i > 0`, in general NOT 0 -/
theorem C06_dogmatic_left (h0 : WF b0 u0 a0) (h1 : WF b1 u1 a1) (hd0 : u0 = 0) :
    (∀ i, 0 < a0 i → uhat2 b0 u0 a0 b1 u1 a1 ≤ b0 i / a0 i * u1) ∧
    (∃ i, 0 < a0 i ∧ uhat2 b0 u0 a0 b1 u1 a1 = b0 i / a0 i * u1) := by
  subst hd0
  obtain ⟨s1, i, j, hij, e⟩ := C06_uhat_char_ij h0 h1
  constructor
  · intro i hi
    obtain ⟨j0, hj0⟩ := exists_pos h1
    have := s1 i j0 (mul_pos hi hj0)
    have e2 : ((b0 i + a0 i * 0) * (b1 j0 + a1 j0 * u1) - b0 i * b1 j0) / (a0 i * a1 j0)
        = b0 i / a0 i * u1 := by
      rw [div_mul_eq_mul_div, div_eq_div_iff (ne_of_gt (mul_pos hi hj0)) (ne_of_gt hi)]; ring
    rw [e2] at this; exact this
  · have hi : 0 < a0 i := by
      rcases lt_or_eq_of_le (h0.ha0 i) with h | h
      · exact h
      · rw [← h, zero_mul] at hij; exact absurd hij (lt_irrefl _)
    have hj : 0 < a1 j := by
      rcases lt_or_eq_of_le (h1.ha0 j) with h | h
      · exact h
      · rw [← h, mul_zero] at hij; exact absurd hij (lt_irrefl _)
    refine ⟨i, hi, ?_⟩
    rw [e, div_mul_eq_mul_div, div_eq_div_iff (ne_of_gt hij) (ne_of_gt hi)]; ring

/-- the same with the roles of the factors exchanged (by transposition) -/
theorem C06_vacuous_right (h0 : WF b0 u0 a0) (h1 : WF b1 u1 a1) (hv1 : u1 = 1) :
    (∀ i, 0 < a0 i → uhat2 b0 u0 a0 b1 u1 a1 ≤ (b0 i + a0 i * u0) / a0 i) ∧
    (∃ i, 0 < a0 i ∧ uhat2 b0 u0 a0 b1 u1 a1 = (b0 i + a0 i * u0) / a0 i) := by
  rw [← C06_transpose_u h0 h1]
  exact C06_vacuous_left h1 h0 hv1

theorem C06_dogmatic_right (h0 : WF b0 u0 a0) (h1 : WF b1 u1 a1) (hd1 : u1 = 0) :
    (∀ j, 0 < a1 j → uhat2 b0 u0 a0 b1 u1 a1 ≤ b1 j / a1 j * u0) ∧
    (∃ j, 0 < a1 j ∧ uhat2 b0 u0 a0 b1 u1 a1 = b1 j / a1 j * u0) := by
  rw [← C06_transpose_u h0 h1]
  exact C06_dogmatic_left h1 h0 hd1

/-! ## 7. three factors -/

theorem C06_index3 (i : Fin n0) (j : Fin n1) (l : Fin n2) (k : Fin (n0 * n1 * n2)) :
    idx3 (flat3 i j l) = (i, j, l) ∧ flat3 (idx3 k).1 (idx3 k).2.1 (idx3 k).2.2 = k ∧
    (flat3 i j l).val = (i.val * n1 + j.val) * n2 + l.val :=
  ⟨idx3_flat3 i j l, flat3_idx3 k, flat3_val i j l⟩

theorem C06_uhat_char3 (h0 : WF b0 u0 a0) (h1 : WF b1 u1 a1) (h2 : WF b2 u2 a2) :
    (∀ k, 0 < A3 a0 a1 a2 k → uhat3 b0 u0 a0 b1 u1 a1 b2 u2 a2
        ≤ (P3 b0 u0 a0 b1 u1 a1 b2 u2 a2 k - B3 b0 b1 b2 k) / A3 a0 a1 a2 k) ∧
    ∃ k, 0 < A3 a0 a1 a2 k ∧ uhat3 b0 u0 a0 b1 u1 a1 b2 u2 a2
        = (P3 b0 u0 a0 b1 u1 a1 b2 u2 a2 k - B3 b0 b1 b2 k) / A3 a0 a1 a2 k :=
  uhat_spec (cell3 h0 h1 h2)

theorem C06_uhat_char3_ijl (h0 : WF b0 u0 a0) (h1 : WF b1 u1 a1) (h2 : WF b2 u2 a2) :
    (∀ i j l, 0 < a0 i * a1 j * a2 l → uhat3 b0 u0 a0 b1 u1 a1 b2 u2 a2
        ≤ ((b0 i + a0 i * u0) * (b1 j + a1 j * u1) * (b2 l + a2 l * u2) - b0 i * b1 j * b2 l)
            / (a0 i * a1 j * a2 l)) ∧
    ∃ i j l, 0 < a0 i * a1 j * a2 l ∧ uhat3 b0 u0 a0 b1 u1 a1 b2 u2 a2
        = ((b0 i + a0 i * u0) * (b1 j + a1 j * u1) * (b2 l + a2 l * u2) - b0 i * b1 j * b2 l)
            / (a0 i * a1 j * a2 l) := by
  obtain ⟨s1, k, hk, e⟩ := C06_uhat_char3 h0 h1 h2
  constructor
  · intro i j l hijl
    have := s1 (flat3 i j l) (by unfold A3; rw [idx3_flat3]; exact hijl)
    unfold P3 A3 B3 at this
    rw [idx3_flat3] at this
    exact this
  · exact ⟨(idx3 k).1, (idx3 k).2.1, (idx3 k).2.2, hk, e⟩

theorem C06_refines3 (h0 : WF b0 u0 a0) (h1 : WF b1 u1 a1) (h2 : WF b2 u2 a2) :
    product3Raw (⟨liftT b0, XQ.fin u0, liftT a0⟩ : Opinion (XQ f) n0) ⟨liftT b1, XQ.fin u1, liftT a1⟩
        ⟨liftT b2, XQ.fin u2, liftT a2⟩
      = ⟨liftT (bJ3 b0 u0 a0 b1 u1 a1 b2 u2 a2), XQ.fin (uhat3 b0 u0 a0 b1 u1 a1 b2 u2 a2),
          liftT (A3 a0 a1 a2)⟩ :=
  product3Raw_lift h0 h1 h2

theorem C06_refines3_explicit (h0 : WF b0 u0 a0) (h1 : WF b1 u1 a1) (h2 : WF b2 u2 a2) :
    ∃ uh : ℚ,
      (∀ i j l, 0 < a0 i * a1 j * a2 l →
        uh ≤ ((b0 i + a0 i * u0) * (b1 j + a1 j * u1) * (b2 l + a2 l * u2) - b0 i * b1 j * b2 l)
            / (a0 i * a1 j * a2 l)) ∧
      (∃ i j l, 0 < a0 i * a1 j * a2 l ∧
        uh = ((b0 i + a0 i * u0) * (b1 j + a1 j * u1) * (b2 l + a2 l * u2) - b0 i * b1 j * b2 l)
            / (a0 i * a1 j * a2 l)) ∧
      product3Raw (⟨liftT b0, XQ.fin u0, liftT a0⟩ : Opinion (XQ f) n0)
          ⟨liftT b1, XQ.fin u1, liftT a1⟩ ⟨liftT b2, XQ.fin u2, liftT a2⟩
        = ⟨liftT (fun k => (b0 (idx3 k).1 + a0 (idx3 k).1 * u0) * (b1 (idx3 k).2.1 + a1 (idx3 k).2.1 * u1)
                * (b2 (idx3 k).2.2 + a2 (idx3 k).2.2 * u2)
              - a0 (idx3 k).1 * a1 (idx3 k).2.1 * a2 (idx3 k).2.2 * uh),
           XQ.fin uh, liftT (fun k => a0 (idx3 k).1 * a1 (idx3 k).2.1 * a2 (idx3 k).2.2)⟩ :=
  ⟨uhat3 b0 u0 a0 b1 u1 a1 b2 u2 a2, (C06_uhat_char3_ijl h0 h1 h2).1,
    (C06_uhat_char3_ijl h0 h1 h2).2, C06_refines3 h0 h1 h2⟩

theorem C06_wf3 (h0 : WF b0 u0 a0) (h1 : WF b1 u1 a1) (h2 : WF b2 u2 a2) :
    (∀ k, B3 b0 b1 b2 k ≤ bJ3 b0 u0 a0 b1 u1 a1 b2 u2 a2 k) ∧ (∀ k, 0 ≤ B3 b0 b1 b2 k) ∧
    0 ≤ uhat3 b0 u0 a0 b1 u1 a1 b2 u2 a2 ∧ uhat3 b0 u0 a0 b1 u1 a1 b2 u2 a2 ≤ 1 ∧
    ∑ k, bJ3 b0 u0 a0 b1 u1 a1 b2 u2 a2 k + uhat3 b0 u0 a0 b1 u1 a1 b2 u2 a2 = 1 ∧
    (∀ k, 0 ≤ A3 a0 a1 a2 k) ∧ ∑ k, A3 a0 a1 a2 k = 1 := by
  have c := cell3 h0 h1 h2
  exact ⟨bJ_ge c, c.hB, uhat_nonneg c, uhat_le_one c, sum_bJ c, c.hA, c.sA⟩

theorem C06_wf_opinion3 (h0 : WF b0 u0 a0) (h1 : WF b1 u1 a1) (h2 : WF b2 u2 a2) :
    WF (bJ3 b0 u0 a0 b1 u1 a1 b2 u2 a2) (uhat3 b0 u0 a0 b1 u1 a1 b2 u2 a2) (A3 a0 a1 a2) :=
  (cell3 h0 h1 h2).wf

theorem C06_outer3 (b0 a0 : Fin n0 → ℚ) (u0 : ℚ) (b1 a1 : Fin n1 → ℚ) (u1 : ℚ)
    (b2 a2 : Fin n2 → ℚ) (u2 : ℚ) (k : Fin (n0 * n1 * n2)) :
    bJ3 b0 u0 a0 b1 u1 a1 b2 u2 a2 k + A3 a0 a1 a2 k * uhat3 b0 u0 a0 b1 u1 a1 b2 u2 a2
      = (b0 (idx3 k).1 + a0 (idx3 k).1 * u0) * (b1 (idx3 k).2.1 + a1 (idx3 k).2.1 * u1)
          * (b2 (idx3 k).2.2 + a2 (idx3 k).2.2 * u2) := by
  unfold bJ3 bJ uhat3
  show P3 b0 u0 a0 b1 u1 a1 b2 u2 a2 k - _ + _ = P3 b0 u0 a0 b1 u1 a1 b2 u2 a2 k
  ring

theorem C06_outer_base_rate3 (b0 a0 : Fin n0 → ℚ) (u0 : ℚ) (b1 a1 : Fin n1 → ℚ) (u1 : ℚ)
    (b2 a2 : Fin n2 → ℚ) (u2 : ℚ) :
    (product3Raw (⟨liftT b0, XQ.fin u0, liftT a0⟩ : Opinion (XQ f) n0)
        ⟨liftT b1, XQ.fin u1, liftT a1⟩ ⟨liftT b2, XQ.fin u2, liftT a2⟩).a
      = outer3 (liftT a0) (liftT a1) (liftT a2) ∧
    outer3 (liftT a0 : Tab (XQ f) n0) (liftT a1) (liftT a2)
      = liftT (fun k => a0 (idx3 k).1 * a1 (idx3 k).2.1 * a2 (idx3 k).2.2) :=
  ⟨rfl, outer3_lift a0 a1 a2⟩

theorem C06_outer_projection3 (h0 : WF b0 u0 a0) (h1 : WF b1 u1 a1) (h2 : WF b2 u2 a2) :
    (product3Raw (⟨liftT b0, XQ.fin u0, liftT a0⟩ : Opinion (XQ f) n0)
        ⟨liftT b1, XQ.fin u1, liftT a1⟩ ⟨liftT b2, XQ.fin u2, liftT a2⟩).projection
      = outer3 (Opinion.projection ⟨liftT b0, XQ.fin u0, liftT a0⟩)
          (Opinion.projection ⟨liftT b1, XQ.fin u1, liftT a1⟩)
          (Opinion.projection ⟨liftT b2, XQ.fin u2, liftT a2⟩) ∧
    (product3Raw (⟨liftT b0, XQ.fin u0, liftT a0⟩ : Opinion (XQ f) n0)
        ⟨liftT b1, XQ.fin u1, liftT a1⟩ ⟨liftT b2, XQ.fin u2, liftT a2⟩).projection
      = liftT (fun k => (b0 (idx3 k).1 + a0 (idx3 k).1 * u0) * (b1 (idx3 k).2.1 + a1 (idx3 k).2.1 * u1)
          * (b2 (idx3 k).2.2 + a2 (idx3 k).2.2 * u2)) := by
  have e2 : (product3Raw (⟨liftT b0, XQ.fin u0, liftT a0⟩ : Opinion (XQ f) n0)
        ⟨liftT b1, XQ.fin u1, liftT a1⟩ ⟨liftT b2, XQ.fin u2, liftT a2⟩).projection
      = liftT (fun k => (b0 (idx3 k).1 + a0 (idx3 k).1 * u0) * (b1 (idx3 k).2.1 + a1 (idx3 k).2.1 * u1)
          * (b2 (idx3 k).2.2 + a2 (idx3 k).2.2 * u2)) := by
    rw [C06_refines3 h0 h1 h2]
    unfold Opinion.projection
    rw [C09_projection (C06_wf_opinion3 h0 h1 h2)]
    congr 1
    funext k
    exact C06_outer3 b0 a0 u0 b1 a1 u1 b2 a2 u2 k
  refine ⟨?_, e2⟩
  rw [e2]
  unfold Opinion.projection
  rw [C09_projection h0, C09_projection h1, C09_projection h2, outer3_lift]

theorem C06_labelled3 (h0 : WF b0 u0 a0) (h1 : WF b1 u1 a1) (h2 : WF b2 u2 a2) :
    product3L (⟨liftT b0, XQ.fin u0, liftT a0⟩ : Opinion (XQ f) n0) ⟨liftT b1, XQ.fin u1, liftT a1⟩
        ⟨liftT b2, XQ.fin u2, liftT a2⟩
      = ⟨liftT (bJ3 b0 u0 a0 b1 u1 a1 b2 u2 a2), XQ.fin (uhat3 b0 u0 a0 b1 u1 a1 b2 u2 a2),
          liftT (A3 a0 a1 a2)⟩ := by
  unfold product3L
  simp only [C06_refines3 h0 h1 h2, normalize_id (cell3 h0 h1 h2)]

theorem C06_unlabelled_accepts3 (h0 : WF b0 u0 a0) (h1 : WF b1 u1 a1) (h2 : WF b2 u2 a2) :
    product3U (⟨liftT b0, XQ.fin u0, liftT a0⟩ : Opinion (XQ f) n0) ⟨liftT b1, XQ.fin u1, liftT a1⟩
        ⟨liftT b2, XQ.fin u2, liftT a2⟩
      = .ok ⟨liftT (bJ3 b0 u0 a0 b1 u1 a1 b2 u2 a2), XQ.fin (uhat3 b0 u0 a0 b1 u1 a1 b2 u2 a2),
          liftT (A3 a0 a1 a2)⟩ := by
  unfold product3U
  simp only [C06_refines3 h0 h1 h2]
  have w := C06_wf_opinion3 h0 h1 h2
  exact SLV.Props.C01.C01_accepts_wf _ _ _ w.hb w.hu w.hs w.ha0 w.ha

theorem C06_max_u3 (h0 : WF b0 u0 a0) (h1 : WF b1 u1 a1) (h2 : WF b2 u2 a2) (u' : ℚ)
    (hu : uhat3 b0 u0 a0 b1 u1 a1 b2 u2 a2 < u') :
    ∃ k, P3 b0 u0 a0 b1 u1 a1 b2 u2 a2 k - A3 a0 a1 a2 k * u' < B3 b0 b1 b2 k :=
  max_u (cell3 h0 h1 h2) u' hu

/-- three vacuous factors give the vacuous product, three dogmatic ones a dogmatic product -/
theorem C06_vacuous3 (h0 : WF b0 u0 a0) (h1 : WF b1 u1 a1) (h2 : WF b2 u2 a2)
    (hv0 : u0 = 1) (hv1 : u1 = 1) (hv2 : u2 = 1) :
    uhat3 b0 u0 a0 b1 u1 a1 b2 u2 a2 = 1 ∧ ∀ k, bJ3 b0 u0 a0 b1 u1 a1 b2 u2 a2 k = 0 := by
  have z0 := vacuous_b h0 hv0
  have z1 := vacuous_b h1 hv1
  have z2 := vacuous_b h2 hv2
  have hPA : ∀ k, P3 b0 u0 a0 b1 u1 a1 b2 u2 a2 k = A3 a0 a1 a2 k := by
    intro k; unfold P3 A3; rw [z0, z1, z2, hv0, hv1, hv2]; ring
  have hB0 : ∀ k, B3 b0 b1 b2 k = 0 := by
    intro k; unfold B3; rw [z0, zero_mul, zero_mul]
  have hu : uhat3 b0 u0 a0 b1 u1 a1 b2 u2 a2 = 1 := uhat_eq_one (cell3 h0 h1 h2) hPA hB0
  refine ⟨hu, ?_⟩
  intro k
  unfold uhat3 at hu
  unfold bJ3 bJ; rw [hu, hPA k]; ring

theorem C06_dogmatic3 (h0 : WF b0 u0 a0) (h1 : WF b1 u1 a1) (h2 : WF b2 u2 a2)
    (hd0 : u0 = 0) (hd1 : u1 = 0) (hd2 : u2 = 0) :
    uhat3 b0 u0 a0 b1 u1 a1 b2 u2 a2 = 0 ∧
    ∀ k, bJ3 b0 u0 a0 b1 u1 a1 b2 u2 a2 k = B3 b0 b1 b2 k := by
  have hPB : ∀ k, P3 b0 u0 a0 b1 u1 a1 b2 u2 a2 k = B3 b0 b1 b2 k := by
    intro k; unfold P3 B3; rw [hd0, hd1, hd2]; ring
  have hu : uhat3 b0 u0 a0 b1 u1 a1 b2 u2 a2 = 0 := uhat_eq_zero (cell3 h0 h1 h2) hPB
  refine ⟨hu, ?_⟩
  intro k
  unfold uhat3 at hu
  unfold bJ3 bJ; rw [hu, hPB k]; ring

/-! ## 8. non-vacuity and witnesses -/

/-- a binary and a ternary factor, the latter with a zero base-rate entry -/
theorem wfA : WF (n := 2) ![1/4, 1/4] (1/2) ![1/2, 1/2] := by
  constructor <;> simp [Fin.forall_fin_two, Fin.sum_univ_two] <;> norm_num

theorem wfB : WF (n := 3) ![1/2, 1/4, 0] (1/4) ![1/2, 0, 1/2] := by
  constructor <;> simp [Fin.forall_fin_succ, Fin.sum_univ_three] <;> norm_num

/-- on this 2×3 instance the joint uncertainty is 1/4 (attained at the cells `(i, 2)`); the candidates
    are 3/4 and 1/4 in each row, the middle cell of each row has base rate 0 and is skipped -/
example : uhat2 ![1/4, 1/4] (1/2) ![1/2, 1/2] ![1/2, 1/4, 0] (1/4) ![1/2, 0, 1/2] = 1/4 := by
  symm
  apply C06_uhat_unique_ij wfA wfB
  · simp [Fin.forall_fin_succ]
    norm_num
  · refine ⟨0, 2, ?_, ?_⟩
    · simp
    · simp; norm_num

/-- … the zero-base-rate cell `(0, 1)` (numerator `P - B = 1/16`, denominator 0) does not pass the
    model's `filter(a > 0)`, the cell `(0, 2)` does -/
example :
    flat2 (0 : Fin 2) (1 : Fin 3) ∉ ((List.finRange (2 * 3)).filter fun k =>
      Scalar.gt (outer2 (liftT ![1/2, 1/2] : Tab (XQ f) 2) (liftT ![1/2, 0, 1/2]))[k] Scalar.zero) ∧
    flat2 (0 : Fin 2) (2 : Fin 3) ∈ ((List.finRange (2 * 3)).filter fun k =>
      Scalar.gt (outer2 (liftT ![1/2, 1/2] : Tab (XQ f) 2) (liftT ![1/2, 0, 1/2]))[k] Scalar.zero) := by
  rw [C06_cells_iff, C06_cells_iff, idx2_flat2, idx2_flat2]
  simp

/-- … likewise with `b1 = [1/2, 0, 1/4]` (zero mass on the zero-base-rate value, numerator and
    denominator both 0): the cell is skipped whatever its numerator, the product is accepted -/
theorem wfB' : WF (n := 3) ![1/2, 0, 1/4] (1/4) ![1/2, 0, 1/2] := by
  constructor <;> simp [Fin.forall_fin_succ, Fin.sum_univ_three] <;> norm_num

example : ∃ w, product2U (⟨liftT ![1/4, 1/4], XQ.fin (1/2), liftT ![1/2, 1/2]⟩ : Opinion (XQ f) 2)
    ⟨liftT ![1/2, 0, 1/4], XQ.fin (1/4), liftT ![1/2, 0, 1/2]⟩ = .ok w :=
  ⟨_, C06_unlabelled_accepts wfA wfB'⟩

/-- the unlabelled product of the 2×3 instance is accepted by `Opinion::new` -/
example : ∃ w, product2U (⟨liftT ![1/4, 1/4], XQ.fin (1/2), liftT ![1/2, 1/2]⟩ : Opinion (XQ f) 2)
    ⟨liftT ![1/2, 1/4, 0], XQ.fin (1/4), liftT ![1/2, 0, 1/2]⟩ = .ok w :=
  ⟨_, C06_unlabelled_accepts wfA wfB⟩

/-- three factors: a third, binary factor with a zero base-rate entry -/
theorem wfC : WF (n := 2) ![1/2, 0] (1/2) ![1, 0] := by
  constructor <;> simp [Fin.forall_fin_two, Fin.sum_univ_two]
  norm_num

example : ∃ w, product3U (⟨liftT ![1/4, 1/4], XQ.fin (1/2), liftT ![1/2, 1/2]⟩ : Opinion (XQ f) 2)
    ⟨liftT ![1/2, 1/4, 0], XQ.fin (1/4), liftT ![1/2, 0, 1/2]⟩
    ⟨liftT ![1/2, 0], XQ.fin (1/2), liftT ![1, 0]⟩ = .ok w :=
  ⟨_, C06_unlabelled_accepts3 wfA wfB wfC⟩

/-- ONE dogmatic factor does not force a dogmatic product: a dogmatic factor whose belief equals its
    base rate times a vacuous factor gives the VACUOUS product (`û = 1`) -/
theorem wfDog : WF (n := 2) ![1/2, 1/2] 0 ![1/2, 1/2] := by
  constructor <;> simp [Fin.forall_fin_two, Fin.sum_univ_two] <;> norm_num

theorem wfVac : WF (n := 2) ![0, 0] 1 ![1/2, 1/2] := by
  constructor <;> simp [Fin.forall_fin_two, Fin.sum_univ_two]
  norm_num

theorem C06_one_dogmatic_not_dogmatic :
    uhat2 ![1/2, 1/2] 0 ![1/2, 1/2] ![0, 0] 1 ![1/2, 1/2] = 1 := by
  obtain ⟨i, _, e⟩ := (C06_dogmatic_left wfDog wfVac rfl).2
  rw [e]
  revert i
  simp [Fin.forall_fin_two]

/-- ONE vacuous factor does not force a vacuous product: with an absolute second factor the product is
    dogmatic (`û = 0`) -/
theorem wfAbs : WF (n := 2) ![1, 0] 0 ![1/2, 1/2] := by
  constructor <;> simp [Fin.forall_fin_two, Fin.sum_univ_two]
  norm_num

theorem C06_one_vacuous_not_vacuous :
    uhat2 ![0, 0] 1 ![1/2, 1/2] ![1, 0] 0 ![1/2, 1/2] = 0 := by
  apply le_antisymm
  · have := (C06_vacuous_left wfVac wfAbs rfl).1 1 (by simp)
    simpa using this
  · exact (C06_wf wfVac wfAbs).2.2.1

/-! ## 9. the candidates as the code evaluates them since repair abca806

  The code no longer forms `(P - B)/A` (a difference of two rounded products of order `P`, divided by a joint
  base rate that may be tiny) but, with `r = b / a` per factor at the cell's coordinates,
  `u0 (r1 + u1) + r0 u1` resp. `u0 (r1 + u1)(r2 + u2) + r0 (u1 (r2 + u2) + r1 u2)` (`prodCand2`, `prodCand3` in
  SLV/Model/Prod.lean).  On a cell with non-zero joint base rate this is the same rational number
  (`C06_candidate`, `C06_candidate3`: the lifting lemmas behind `C06_refines`, `C06_refines3`, whose statements
  did not change).  What distinguishes the two forms at the exact level: the expanded candidate is a sum of
  products of non-negative numbers, so the uncertainty of the raw product is `≥ 0` for ALL non-negative operands
  (`C06_uncertainty_nonneg_gen`, `…_gen3`), whereas the old form, which used the NORMALISED projections, is
  negative for operands that are well-formed only within the constructors' tolerance
  (`C06_pinned_product_negative_exact` in SLV/Props/Pinned.lean). -/

/-- the model's candidate at cell `k = (i, j)`, on lifted rational operands of any kind, when the joint base rate
    of the cell is not zero: the expanded form, and the quotient `(P0 i * P1 j - b0 i * b1 j) / (a0 i * a1 j)` of the
    un-normalised projections `P = b + a u` -/
theorem C06_candidate (b0 a0 : Fin n0 → ℚ) (u0 : ℚ) (b1 a1 : Fin n1 → ℚ) (u1 : ℚ) (k : Fin (n0 * n1))
    (hk : a0 (idx2 k).1 * a1 (idx2 k).2 ≠ 0) :
    prodCand2 (⟨liftT b0, XQ.fin u0, liftT a0⟩ : Opinion (XQ f) n0) ⟨liftT b1, XQ.fin u1, liftT a1⟩ (idx2 k)
      = XQ.fin (u0 * (b1 (idx2 k).2 / a1 (idx2 k).2 + u1) + b0 (idx2 k).1 / a0 (idx2 k).1 * u1) ∧
    u0 * (b1 (idx2 k).2 / a1 (idx2 k).2 + u1) + b0 (idx2 k).1 / a0 (idx2 k).1 * u1
      = ((b0 (idx2 k).1 + a0 (idx2 k).1 * u0) * (b1 (idx2 k).2 + a1 (idx2 k).2 * u1)
          - b0 (idx2 k).1 * b1 (idx2 k).2) / (a0 (idx2 k).1 * a1 (idx2 k).2) := by
  refine ⟨prodCand2_fin b0 u0 a0 b1 u1 a1 k hk, ?_⟩
  have h := prodCand2_fin (f := f) b0 u0 a0 b1 u1 a1 k hk
  rw [prodCand2_lift b0 u0 a0 b1 u1 a1 k hk] at h
  exact (XQ.fin.inj h).symm

theorem C06_candidate3 (b0 a0 : Fin n0 → ℚ) (u0 : ℚ) (b1 a1 : Fin n1 → ℚ) (u1 : ℚ)
    (b2 a2 : Fin n2 → ℚ) (u2 : ℚ) (k : Fin (n0 * n1 * n2))
    (hk : a0 (idx3 k).1 * a1 (idx3 k).2.1 * a2 (idx3 k).2.2 ≠ 0) :
    prodCand3 (⟨liftT b0, XQ.fin u0, liftT a0⟩ : Opinion (XQ f) n0) ⟨liftT b1, XQ.fin u1, liftT a1⟩
        ⟨liftT b2, XQ.fin u2, liftT a2⟩ (idx3 k)
      = XQ.fin (cand3 b0 u0 a0 b1 u1 a1 b2 u2 a2 k) ∧
    cand3 b0 u0 a0 b1 u1 a1 b2 u2 a2 k
      = ((b0 (idx3 k).1 + a0 (idx3 k).1 * u0) * (b1 (idx3 k).2.1 + a1 (idx3 k).2.1 * u1)
            * (b2 (idx3 k).2.2 + a2 (idx3 k).2.2 * u2)
          - b0 (idx3 k).1 * b1 (idx3 k).2.1 * b2 (idx3 k).2.2)
        / (a0 (idx3 k).1 * a1 (idx3 k).2.1 * a2 (idx3 k).2.2) := by
  refine ⟨prodCand3_fin b0 u0 a0 b1 u1 a1 b2 u2 a2 k hk, ?_⟩
  have h := prodCand3_fin (f := f) b0 u0 a0 b1 u1 a1 b2 u2 a2 k hk
  rw [prodCand3_lift b0 u0 a0 b1 u1 a1 b2 u2 a2 k hk] at h
  exact (XQ.fin.inj h).symm

/-- the uncertainty of the raw product is finite and `≥ 0` for ALL operands with non-negative entries, whatever
    their sums (in particular for operands that are well-formed only within the constructors' tolerance), as soon
    as one cell has a positive joint base rate (otherwise the Rust code panics on the empty `reduce`): it is the
    least expanded candidate over the cells with positive joint base rate, each a sum of products of non-negative
    numbers.  The form `(P - B)/A` of the code before repair abca806 does not have this property
    (`C06_pinned_product_negative_exact`). -/
theorem C06_uncertainty_nonneg_gen (b0 a0 : Fin n0 → ℚ) (u0 : ℚ) (b1 a1 : Fin n1 → ℚ) (u1 : ℚ)
    (hb0 : ∀ i, 0 ≤ b0 i) (hu0 : 0 ≤ u0) (ha0 : ∀ i, 0 ≤ a0 i)
    (hb1 : ∀ j, 0 ≤ b1 j) (hu1 : 0 ≤ u1) (ha1 : ∀ j, 0 ≤ a1 j)
    (hne : ∃ i j, 0 < a0 i * a1 j) :
    ∃ q : ℚ,
      (product2Raw (⟨liftT b0, XQ.fin u0, liftT a0⟩ : Opinion (XQ f) n0)
          ⟨liftT b1, XQ.fin u1, liftT a1⟩).u = XQ.fin q ∧
      0 ≤ q ∧
      (∀ i j, 0 < a0 i * a1 j → q ≤ u0 * (b1 j / a1 j + u1) + b0 i / a0 i * u1) ∧
      ∃ i j, 0 < a0 i * a1 j ∧ q = u0 * (b1 j / a1 j + u1) + b0 i / a0 i * u1 := by
  obtain ⟨m, e, hle, k1, hk1, hat⟩ := rawOf_u_gen (f := f)
    (outer2 (SLV.projection (liftT b0) (XQ.fin u0) (liftT a0))
      (SLV.projection (liftT b1) (XQ.fin u1) (liftT a1)))
    (A2 a0 a1)
    (fun k => prodCand2 (⟨liftT b0, XQ.fin u0, liftT a0⟩ : Opinion (XQ f) n0)
      ⟨liftT b1, XQ.fin u1, liftT a1⟩ (idx2 k))
    (cand2 b0 u0 a0 b1 u1 a1)
    (fun k hk => prodCand2_fin b0 u0 a0 b1 u1 a1 k (ne_of_gt hk))
    (by obtain ⟨i, j, h⟩ := hne; exact ⟨flat2 i j, by unfold A2; rw [idx2_flat2]; exact h⟩)
  have hA : (liftT (A2 a0 a1) : Tab (XQ f) (n0 * n1)) = outer2 (liftT a0) (liftT a1) := (outer2_lift a0 a1).symm
  rw [hA] at e
  refine ⟨m, e, ?_, ?_, ?_⟩
  · rw [hat]; exact cand2_nonneg b0 u0 a0 b1 u1 a1 hb0 hu0 ha0 hb1 hu1 ha1 k1
  · intro i j hij
    have := hle (flat2 i j) (by unfold A2; rw [idx2_flat2]; exact hij)
    unfold cand2 at this
    rw [idx2_flat2] at this
    exact this
  · exact ⟨(idx2 k1).1, (idx2 k1).2, hk1, hat⟩

/-- three factors -/
theorem C06_uncertainty_nonneg_gen3 (b0 a0 : Fin n0 → ℚ) (u0 : ℚ) (b1 a1 : Fin n1 → ℚ) (u1 : ℚ)
    (b2 a2 : Fin n2 → ℚ) (u2 : ℚ)
    (hb0 : ∀ i, 0 ≤ b0 i) (hu0 : 0 ≤ u0) (ha0 : ∀ i, 0 ≤ a0 i)
    (hb1 : ∀ j, 0 ≤ b1 j) (hu1 : 0 ≤ u1) (ha1 : ∀ j, 0 ≤ a1 j)
    (hb2 : ∀ l, 0 ≤ b2 l) (hu2 : 0 ≤ u2) (ha2 : ∀ l, 0 ≤ a2 l)
    (hne : ∃ i j l, 0 < a0 i * a1 j * a2 l) :
    ∃ q : ℚ,
      (product3Raw (⟨liftT b0, XQ.fin u0, liftT a0⟩ : Opinion (XQ f) n0)
          ⟨liftT b1, XQ.fin u1, liftT a1⟩ ⟨liftT b2, XQ.fin u2, liftT a2⟩).u = XQ.fin q ∧
      0 ≤ q ∧
      (∀ i j l, 0 < a0 i * a1 j * a2 l →
        q ≤ u0 * (b1 j / a1 j + u1) * (b2 l / a2 l + u2)
              + b0 i / a0 i * (u1 * (b2 l / a2 l + u2) + b1 j / a1 j * u2)) ∧
      ∃ i j l, 0 < a0 i * a1 j * a2 l ∧
        q = u0 * (b1 j / a1 j + u1) * (b2 l / a2 l + u2)
              + b0 i / a0 i * (u1 * (b2 l / a2 l + u2) + b1 j / a1 j * u2) := by
  obtain ⟨m, e, hle, k1, hk1, hat⟩ := rawOf_u_gen (f := f)
    (outer3 (SLV.projection (liftT b0) (XQ.fin u0) (liftT a0))
      (SLV.projection (liftT b1) (XQ.fin u1) (liftT a1))
      (SLV.projection (liftT b2) (XQ.fin u2) (liftT a2)))
    (A3 a0 a1 a2)
    (fun k => prodCand3 (⟨liftT b0, XQ.fin u0, liftT a0⟩ : Opinion (XQ f) n0)
      ⟨liftT b1, XQ.fin u1, liftT a1⟩ ⟨liftT b2, XQ.fin u2, liftT a2⟩ (idx3 k))
    (cand3 b0 u0 a0 b1 u1 a1 b2 u2 a2)
    (fun k hk => prodCand3_fin b0 u0 a0 b1 u1 a1 b2 u2 a2 k (ne_of_gt hk))
    (by obtain ⟨i, j, l, h⟩ := hne; exact ⟨flat3 i j l, by unfold A3; rw [idx3_flat3]; exact h⟩)
  have hA : (liftT (A3 a0 a1 a2) : Tab (XQ f) (n0 * n1 * n2)) = outer3 (liftT a0) (liftT a1) (liftT a2) :=
    (outer3_lift a0 a1 a2).symm
  rw [hA] at e
  refine ⟨m, e, ?_, ?_, ?_⟩
  · rw [hat]
    exact cand3_nonneg b0 u0 a0 b1 u1 a1 b2 u2 a2 hb0 hu0 ha0 hb1 hu1 ha1 hb2 hu2 ha2 k1
  · intro i j l hijl
    have := hle (flat3 i j l) (by unfold A3; rw [idx3_flat3]; exact hijl)
    unfold cand3 at this
    rw [idx3_flat3] at this
    exact this
  · exact ⟨(idx3 k1).1, (idx3 k1).2.1, (idx3 k1).2.2, hk1, hat⟩

/-- non-vacuity of `C06_uncertainty_nonneg_gen` beyond `C06_wf`: a dogmatic second factor whose masses sum to
    `1 + ε/2` (accepted by the checked constructor, not `WF`) satisfies the hypotheses; the uncertainty of the
    product is `0` (the form `(P - B)/A` of the normalised projections gave `-(1+ε)ε/(2+ε) < 0` here:
    `C06_pinned_product_negative_exact`) -/
example :
    (∀ j, 0 ≤ (![1/2, 1/2 + f.eps / 2] : Fin 2 → ℚ) j) ∧ ¬ WF ![1/2, 1/2 + f.eps / 2] 0 ![1/2, 1/2] ∧
    (∃ i j, 0 < (![1/2, 1/2] : Fin 2 → ℚ) i * (![1/2, 1/2] : Fin 2 → ℚ) j) ∧
    (product2Raw (⟨liftT ![1/2, 1/2], XQ.fin 0, liftT ![1/2, 1/2]⟩ : Opinion (XQ f) 2)
        ⟨liftT ![1/2, 1/2 + f.eps / 2], XQ.fin 0, liftT ![1/2, 1/2]⟩).u = XQ.fin 0 := by
  have he := XQ.eps_pos f
  refine ⟨?_, ?_, ⟨0, 0, by norm_num⟩, ?_⟩
  · simp [Fin.forall_fin_two]; positivity
  · intro h
    have := h.hs
    simp [Fin.sum_univ_two] at this
    linarith
  · obtain ⟨q, e, h0, _, i, j, _, hq⟩ := C06_uncertainty_nonneg_gen (f := f) ![1/2, 1/2] ![1/2, 1/2] 0
      ![1/2, 1/2 + f.eps / 2] ![1/2, 1/2] 0 (by simp [Fin.forall_fin_two]) le_rfl
      (by simp [Fin.forall_fin_two]) (by simp [Fin.forall_fin_two]; positivity) le_rfl
      (by simp [Fin.forall_fin_two]) ⟨0, 0, by norm_num⟩
    rw [e, hq]; simp

/-! ## 10. the clamp of the joint belief masses (repair b817f74)

  Every joint mass `p[d] - a[d] * u` is clamped at zero.  On exactly well-formed operands the clamp is idle
  (`C06_clamp_idle`, `…3`: the un-clamped text `Pinned.product2NoClamp` computes the same opinion; the joint masses are
  `bJ2 ≥ B2 ≥ 0` by `C06_wf`, and the candidate filter is the exact test `a > 0`, so no guard band is involved — unlike
  `uncertainty_maximized`), which is why no statement of sections 1-9 changed.  What the clamp adds holds for ALL
  operands of the exact semantics (`C06_product_masses_nonneg_gen`, `…3`). -/

theorem C06_clamp_idle (h0 : WF b0 u0 a0) (h1 : WF b1 u1 a1) :
    product2Raw (⟨liftT b0, XQ.fin u0, liftT a0⟩ : Opinion (XQ f) n0) ⟨liftT b1, XQ.fin u1, liftT a1⟩
      = Pinned.product2NoClamp ⟨liftT b0, XQ.fin u0, liftT a0⟩ ⟨liftT b1, XQ.fin u1, liftT a1⟩ := by
  rw [product2Raw_lift h0 h1, product2NoClamp_lift h0 h1]

theorem C06_clamp_idle3 (h0 : WF b0 u0 a0) (h1 : WF b1 u1 a1) (h2 : WF b2 u2 a2) :
    product3Raw (⟨liftT b0, XQ.fin u0, liftT a0⟩ : Opinion (XQ f) n0) ⟨liftT b1, XQ.fin u1, liftT a1⟩
        ⟨liftT b2, XQ.fin u2, liftT a2⟩
      = Pinned.product3NoClamp ⟨liftT b0, XQ.fin u0, liftT a0⟩ ⟨liftT b1, XQ.fin u1, liftT a1⟩
          ⟨liftT b2, XQ.fin u2, liftT a2⟩ := by
  rw [product3Raw_lift h0 h1 h2, product3NoClamp_lift h0 h1 h2]

/-- FALSE before repair b817f74 (`C06_product_negative_mass_before` below), true now: for ALL operands of the exact
    semantics — no well-formedness, entries of either sign, `±∞` and NaN included — no joint belief mass of the product
    compares below zero: not in the part shared by both families (`product2Raw`), hence not in the labelled product
    (`Opinion::normalized` renormalises the base rate only), nor in an accepted result of the unlabelled one; and when
    the unlabelled product's `Opinion::new` still answers `b[..] ∈ [0,1] is not satisfied`, the offending mass is NaN,
    `+∞` or a finite value above `1 + 4ε` — never a negative one.  (The joint uncertainty itself is not clamped; it is
    `≥ 0` for all operands with non-negative finite entries, `C06_uncertainty_nonneg_gen`.) -/
theorem C06_product_masses_nonneg_gen (w0 : Opinion (XQ f) n0) (w1 : Opinion (XQ f) n1) :
    (∀ k : Fin (n0 * n1), XQ.NotNeg (product2Raw w0 w1).b[k]) ∧
    (∀ k : Fin (n0 * n1), XQ.NotNeg (product2L w0 w1).b[k]) ∧
    (∀ w, product2U w0 w1 = .ok w → ∀ k : Fin (n0 * n1), XQ.NotNeg w.b[k]) ∧
    (product2U w0 w1 = .error .b →
      ∃ k : Fin (n0 * n1), (product2Raw w0 w1).b[k] = XQ.nan ∨ (product2Raw w0 w1).b[k] = XQ.pinf ∨
        ∃ q : ℚ, 1 + 4 * f.eps < q ∧ (product2Raw w0 w1).b[k] = XQ.fin q) := by
  have hraw : ∀ k : Fin (n0 * n1), XQ.NotNeg (product2Raw w0 w1).b[k] := fun k => rawOf_b_notNeg _ _ _ k
  refine ⟨hraw, hraw, ?_, ?_⟩
  · intro w hw k
    rw [tryNew_ok_eq hw]; exact hraw k
  · intro h
    exact tryNew_b_of_notNeg _ _ _ hraw h

/-- three factors -/
theorem C06_product_masses_nonneg_gen3 (w0 : Opinion (XQ f) n0) (w1 : Opinion (XQ f) n1)
    (w2 : Opinion (XQ f) n2) :
    (∀ k : Fin (n0 * n1 * n2), XQ.NotNeg (product3Raw w0 w1 w2).b[k]) ∧
    (∀ k : Fin (n0 * n1 * n2), XQ.NotNeg (product3L w0 w1 w2).b[k]) ∧
    (∀ w, product3U w0 w1 w2 = .ok w → ∀ k : Fin (n0 * n1 * n2), XQ.NotNeg w.b[k]) ∧
    (product3U w0 w1 w2 = .error .b →
      ∃ k : Fin (n0 * n1 * n2), (product3Raw w0 w1 w2).b[k] = XQ.nan ∨ (product3Raw w0 w1 w2).b[k] = XQ.pinf ∨
        ∃ q : ℚ, 1 + 4 * f.eps < q ∧ (product3Raw w0 w1 w2).b[k] = XQ.fin q) := by
  have hraw : ∀ k : Fin (n0 * n1 * n2), XQ.NotNeg (product3Raw w0 w1 w2).b[k] :=
    fun k => rawOf_b_notNeg _ _ _ k
  refine ⟨hraw, hraw, ?_, ?_⟩
  · intro w hw k
    rw [tryNew_ok_eq hw]; exact hraw k
  · intro h
    exact tryNew_b_of_notNeg _ _ _ hraw h

/-- vacuous first factor over `a = [1/2, 1/2]` -/
def ncw0 : Opinion (XQ .f64) 2 := ⟨#v[.fin 0, .fin 0], .fin 1, #v[.fin (1 / 2), .fin (1 / 2)]⟩
/-- second factor `([0, 1/2], 1/2, [1/2, 1/2 + 3ε])`: base rate sum `1 + 3ε`, accepted by the constructors, not `WF` -/
def ncw1 : Opinion (XQ .f64) 2 :=
  ⟨#v[.fin 0, .fin (1 / 2)], .fin (1 / 2), #v[.fin (1 / 2), .fin (1 / 2 + 3 * Fmt.eps .f64)]⟩

/-- non-vacuity, and what the clamp repairs at the exact level: both operands are accepted by the checked
    constructor; the projection of `ncw1` is renormalised by `1 + 3ε/2`, the minimising cells are `(·, 0)` with `û = 1/2`,
    and `p - a û = (1/8)(1/(1 + 3ε/2) - 1)`: before repair b817f74 (`Pinned.product2NoClamp`) the finite negative mass
    `-(3/16) ε / (1 + 3ε/2)` was returned … -/
theorem C06_product_negative_mass_before :
    ((match Opinion.tryNew ncw0.b ncw0.u ncw0.a, Opinion.tryNew ncw1.b ncw1.u ncw1.a with
        | .ok _, .ok _ => true | _, _ => false)
      && (let w := Pinned.product2NoClamp ncw0 ncw1
          decide (w.u = .fin (1 / 2))
            && decide (w.b[0] = .fin (-(3 / 16) * Fmt.eps .f64 / (1 + 3 / 2 * Fmt.eps .f64)))
            && Scalar.lt w.b[0] (Scalar.zero : XQ .f64) && Scalar.lt w.b[2] (Scalar.zero : XQ .f64))) = true := by
  decide +kernel

/-- … and is exactly zero now -/
theorem C06_product_negative_mass_repaired :
    (let w := product2Raw ncw0 ncw1
     decide (w.u = .fin (1 / 2)) && decide (w.b[0] = .fin 0) && decide (w.b[2] = .fin 0)
       && (match product2U ncw0 ncw1 with | .ok _ => true | .error _ => false)) = true := by
  decide +kernel

end SLV.Props.C06
