/-
  C18 — Index enumeration is the lexicographic Cartesian product of the dimensions.
  Statements are about the executable model SLV/Model/MArr.lean (`MultiRange.new` / `MultiRange.next`, the
  transcription of the Rust odometer; `keys`, `keysD2`, `keysD3` = `iproduct!` of the axis keys; `NewIdx`),
  for EVERY rank and size vector.  Helper lemmas: SLV/Refine/ArrLemmas.lean, SLV/Refine/ArrResume.lean.
-/
import SLV.Refine.ArrLemmas
import SLV.Refine.ArrResume

namespace SLV.Props.C18
open SLV.MArr

/-- The first `∏ size` calls of `next()` on `MultiRange::new(size)` return exactly the tuples of `lexList size`
    (the Cartesian product `[0,n0) x ... x [0,nk)` in lexicographic order, last coordinate fastest), in that order,
    and leave the iterator with `k = None`. -/
theorem C18_multirange (size : List Nat) :
    nextN MultiRange.next (lexList size).length (MultiRange.new size)
      = ((lexList size).map some, ⟨none, size⟩) := by
  rcases pos_or_zero size with h | h
  · obtain ⟨rest, hlex, hch⟩ := lexList_chain size h
    have hlen : ∀ x ∈ List.replicate size.length 0 :: rest, x.length = size.length := by
      intro x hx; exact lexList_length_mem size x (by rw [hlex]; exact hx)
    rw [new_pos size h, hlex]
    exact nextN_chain size rest _ hlen hch
  · rw [new_zero size h, lexList_eq_nil_of_zero size h]; rfl

/-- the number of tuples is the product of the dimensions -/
theorem C18_length (size : List Nat) : (lexList size).length = size.prod := lexList_length size

/-- After exhaustion every further `next()` is `None` (and the state stays exhausted): `m` extra calls after the
    `∏ size` productive ones. -/
theorem C18_exhausted (size : List Nat) (m : Nat) :
    nextN MultiRange.next m (nextN MultiRange.next (lexList size).length (MultiRange.new size)).2
      = (List.replicate m none, ⟨none, size⟩) := by
  rw [C18_multirange]; exact nextN_none size m

/-- a consumer that stops at the first `None` (`for`, `collect`, `map`) sees exactly `lexList size` -/
theorem C18_collect (size : List Nat) : MultiRange.toList size = lexList size := toList_eq_lexList size

/-- nothing is enumerated when some dimension is zero: the specification list is empty and every `next()` is `None` -/
theorem C18_zero_dim (size : List Nat) (h : 0 ∈ size) (m : Nat) :
    lexList size = [] ∧
    nextN MultiRange.next m (MultiRange.new size) = (List.replicate m none, ⟨none, size⟩) := by
  refine ⟨lexList_eq_nil_of_zero size h, ?_⟩
  rw [new_zero size h]; exact nextN_none size m

/-- every tuple is enumerated at most once -/
theorem C18_nodup (size : List Nat) : (lexList size).Nodup := lexList_nodup size

/-- a tuple is enumerated iff it has the right rank and every coordinate is below its dimension -/
theorem C18_mem_iff (size k : List Nat) :
    k ∈ lexList size ↔ k.length = size.length ∧ ∀ i (hk : i < k.length) (hs : i < size.length), k[i] < size[i] := by
  rw [mem_lexList_iff, List.forall₂_iff_get]
  constructor
  · rintro ⟨hl, h⟩; exact ⟨hl, fun i hk hs => h i hk hs⟩
  · rintro ⟨hl, h⟩; exact ⟨hl, fun i hk hs => h i hk hs⟩

/-- lexicographic order, last coordinate fastest: the enumeration of `s :: ss` is, for `i = 0, 1, .., s-1` in this
    order, the enumeration of `ss` with `i` put in front (definitional unfolding, stated for the record) -/
theorem C18_lex_order (s : Nat) (ss : List Nat) :
    lexList (s :: ss) = (List.range s).flatMap fun i => (lexList ss).map (i :: ·) := rfl

/-- `Keys::keys()` of a domain of size `n` is `0, 1, .., n-1` in increasing order -/
theorem C18_keys (n : Nat) : keys n = List.range n ∧ (keys n).Pairwise (· < ·) ∧ (keys n).length = n := by
  refine ⟨rfl, ?_, by simp [keys]⟩
  simpa [keys] using List.pairwise_lt_range

/-- the labelled enumerations (`D0::keys()`, `iproduct!(D0::keys(), D1::keys())`,
    `iproduct!(D0::keys(), D1::keys(), D2::keys())`) are the same lists as the unlabelled odometer's -/
theorem C18_labelled (d0 d1 d2 : Nat) :
    (keys d0).map (fun i => [i]) = lexList [d0] ∧
    (keysD2 d0 d1).map (fun p => [p.1, p.2]) = lexList [d0, d1] ∧
    (keysD3 d0 d1 d2).map (fun p => [p.1, p.2.1, p.2.2]) = lexList [d0, d1, d2] := by
  exact keys_lex d0 d1 d2

/-- labelled and unlabelled families agree: the drained `MultiRange` equals the mapped `iproduct!` (ranks 1..3) -/
theorem C18_families_agree (d0 d1 d2 : Nat) :
    MultiRange.toList [d0] = (keys d0).map (fun i => [i]) ∧
    MultiRange.toList [d0, d1] = (keysD2 d0 d1).map (fun p => [p.1, p.2]) ∧
    MultiRange.toList [d0, d1, d2] = (keysD3 d0 d1 d2).map (fun p => [p.1, p.2.1, p.2.2]) := by
  obtain ⟨h1, h2, h3⟩ := C18_labelled d0 d1 d2
  exact ⟨by rw [h1, C18_collect], by rw [h2, C18_collect], by rw [h3, C18_collect]⟩

/-- keys of newtype domains round-trip through their integer representation (`usize -> S -> usize`,
    `S -> usize -> S`) and through conversion between sibling domains (`S -> F -> S`, value preserved) -/
theorem C18_newtype_roundtrip (n : Nat) (i : NewIdx) :
    (NewIdx.ofUsize n).toUsize = n ∧ NewIdx.ofUsize i.toUsize = i ∧
    i.sib.sib = i ∧ i.sib.toUsize = i.toUsize := ⟨rfl, rfl, rfl, rfl⟩

/-! ### resumed enumerations: `k` calls of `next()`, then the remainder is consumed (by `next()` or, in the crate, by
    any provided `Iterator` method: `collect`, `for_each`, `fold`, `count`, `last`, `nth`, `skip`, `step_by`, `min`,
    `max`, `position`, `all`, ...) -/

/-- RESUME.  For every rank, size vector and `k`: the first `k` calls of `next()` on `MultiRange::new(size)` return
    the first `k` tuples of `lexList size` (`None` for every call beyond the end), and a consumer that then drains the
    advanced iterator (with enough fuel to reach the first `None`) sees exactly `(lexList size).drop k` and leaves the
    iterator exhausted.  From `C18_multirange` by the generic lemma `resume_of_nextN`. -/
theorem C18_resume (size : List Nat) (k fuel : Nat) (hf : (lexList size).length - k < fuel) :
    (nextN MultiRange.next k (MultiRange.new size)).1
        = ((lexList size).take k).map some ++ List.replicate (k - (lexList size).length) none ∧
    drain MultiRange.next fuel (nextN MultiRange.next k (MultiRange.new size)).2
        = ((lexList size).drop k, ⟨none, size⟩) :=
  resume_of_nextN MultiRange.next _ _ _ (C18_multirange size) rfl k fuel hf

/-- the function the driver evaluates for a `resume:<k>` step of the unlabelled family, in closed form -/
theorem C18_resume_model (size : List Nat) (k : Nat) :
    MultiRange.resume size k
      = (((lexList size).take k).map some ++ List.replicate (k - size.prod) none, (lexList size).drop k) := by
  rw [multirange_resume, C18_length]

/-- the labelled enumerations (lists of `iproduct!` items behind a list iterator) resumed after `k` calls: the same
    closed form, for any item list -/
theorem C18_resume_list {V : Type} (l : List V) (k : Nat) :
    resumeRun SliceIter.next k (l.length + 1) l
      = ((l.take k).map some ++ List.replicate (k - l.length) none, l.drop k) := slice_resume l k

/-- the whole enumeration, hence every remainder, is strictly increasing in the lexicographic order of the tuples
    (the `Ord` of `[usize; N]` / tuples of `usize`) -/
theorem C18_sorted (size : List Nat) : (lexList size).Pairwise (· < ·) := lexList_sorted size
theorem C18_resume_sorted (size : List Nat) (k : Nat) : ((lexList size).drop k).Pairwise (· < ·) :=
  lexList_drop_sorted size k

/-- `count()` of the remainder: the product of the sizes minus `k`, truncated at 0 -/
theorem C18_resume_length (size : List Nat) (k : Nat) : ((lexList size).drop k).length = size.prod - k := by
  rw [List.length_drop, C18_length]

/-- so `min()` is the first and `max()` the last tuple of the remainder (`minLex` / `maxLex` are the folds of
    `Iterator::min` / `max` over the lexicographic order) -/
theorem C18_resume_min_max (size : List Nat) (k : Nat) :
    minLex ((lexList size).drop k) = ((lexList size).drop k).head? ∧
    maxLex ((lexList size).drop k) = ((lexList size).drop k).getLast? :=
  ⟨minLex_sorted _ (lexList_drop_sorted size k), maxLex_sorted _ (lexList_drop_sorted size k)⟩

/-- the remainder in terms of the full enumeration: `nth(j)` is tuple `k + j`, `last()` is the last tuple of the
    shape whenever anything remains, `step_by(2)` picks the tuples `k, k+2, k+4, ..` -/
theorem C18_resume_items (size : List Nat) (k j : Nat) :
    ((lexList size).drop k)[j]? = (lexList size)[k + j]? ∧
    (k < size.prod → ((lexList size).drop k).getLast? = (lexList size).getLast?) ∧
    (stepBy2 ((lexList size).drop k))[j]? = (lexList size)[k + 2 * j]? := by
  refine ⟨by simp, fun hk => ?_, by rw [stepBy2_getElem?]; simp⟩
  rw [List.getLast?_drop, if_neg (by rw [C18_length]; omega)]

/-- non-vacuity / concrete instance: 2 x 0 enumerates nothing, 2 x 3 enumerates the six pairs in row-major order -/
example : lexList [2, 3] = [[0, 0], [0, 1], [0, 2], [1, 0], [1, 1], [1, 2]] := by decide
example : (nextN MultiRange.next 7 (MultiRange.new [2, 3])).1
    = [some [0, 0], some [0, 1], some [0, 2], some [1, 0], some [1, 1], some [1, 2], none] := by decide
example : (nextN MultiRange.next 2 (MultiRange.new [])).1 = [some [], none] := by decide
example : MultiRange.resume [2, 3] 4 = ([some [0, 0], some [0, 1], some [0, 2], some [1, 0]], [[1, 1], [1, 2]]) := by
  decide
example : MultiRange.resume [2, 2] 5 = ([some [0, 0], some [0, 1], some [1, 0], some [1, 1], none], []) := by decide

end SLV.Props.C18
