/-
  C02 (addition): an entry of the base rate on which both operands carry the SAME finite value is returned
  unchanged by `compute_base_rate` -- for every operator, every guard arm (shared object, both dogmatic,
  vacuous / dogmatic shortcuts, the three formula arms), any beliefs and uncertainties (no well-formedness
  hypothesis at all: the other entries, the beliefs and the uncertainties may be anything, even `nan`).
-/
import SLV.Props.C02

namespace SLV.Props.C02
open SLV Scalar

variable {f : Fmt} {n : Nat}

/-- the per-entry test `al == ar` succeeds on equal finite values, whatever the formula value is -/
theorem brEntry_fin_same (q : ℚ) (z : XQ f) : brEntry (XQ.fin q : XQ f) (XQ.fin q) z = XQ.fin q := by
  unfold brEntry
  simp

/-- the two-dogmatic arm: the mean of two equal finite values is that value -/
theorem mean_fin_same (q : ℚ) : ((XQ.fin q : XQ f) + XQ.fin q) / Scalar.two = XQ.fin q := by
  rw [XQ.two_def, XQ.add_fin, XQ.div_fin _ _ (by norm_num)]
  congr 1
  ring

/-- `compute_base_rate`: where both operands carry the same finite base-rate entry, that entry is returned -/
theorem C02_equal_entry_unchanged (op : FuseOp) (same : Bool) (l r : Opinion (XQ f) n) (i : Fin n) (q : ℚ)
    (hl : l.a[i] = XQ.fin q) (hr : r.a[i] = XQ.fin q) :
    (computeBaseRate op same l r)[i] = XQ.fin q := by
  unfold computeBaseRate
  simp only [Fin.getElem_fin] at hl hr ⊢
  cases same
  · simp only [Bool.false_eq_true, if_false]
    split
    · rw [Vector.getElem_ofFn, hl, hr, mean_fin_same]
    · cases op <;> dsimp only <;> split_ifs <;>
        first
          | exact hl
          | exact hr
          | (rw [Vector.getElem_ofFn, hl, hr, brEntry_fin_same])
  · simpa using hl

/-- … hence the same for the whole operator (`Opinion.mk'` keeps the base rate it is given) -/
theorem C02_equal_entry_unchanged_fuse (op : FuseOp) (same : Bool) (l r : Opinion (XQ f) n) (i : Fin n) (q : ℚ)
    (hl : l.a[i] = XQ.fin q) (hr : r.a[i] = XQ.fin q) :
    (fuse op same l r).a[i] = XQ.fin q := by
  unfold fuse
  simp only [Opinion.mk']
  exact C02_equal_entry_unchanged op same l r i q hl hr

/-- non-vacuity: entry 0 is `1/2` on both sides, the other entries differ (`(1/2, 1/2, 0)` vs `(1/2, 0, 1/2)`) -/
example (op : FuseOp) (same : Bool) :
    (computeBaseRate op same
      (⟨#v[q32 1 4, q32 1 4, q32 0 1], q32 1 2, #v[.fin (1/2), .fin (1/2), .fin 0]⟩ : Opinion (XQ .f32) 3)
      ⟨#v[q32 1 4, q32 1 4, q32 0 1], q32 1 2, #v[.fin (1/2), .fin 0, .fin (1/2)]⟩)[(0 : Fin 3)]
      = XQ.fin (1/2) :=
  C02_equal_entry_unchanged op same _ _ 0 (1/2) rfl rfl

end SLV.Props.C02

