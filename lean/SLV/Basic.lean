def hello := "world"
