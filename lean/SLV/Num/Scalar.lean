/-
  Scalar: the arithmetic interface the model is written against.
  One model text, several semantics (exact `XQ`, native `Float`/`Float32`).
  Operations mirror what the Rust code uses from `num_traits::Float` and `approx`.
  This file imports nothing outside Lean core so that the driver links natively.
-/
namespace SLV

/-- Floating-point formats of the two instantiations in the crate (`f32`, `f64`). -/
inductive Fmt where
  | f32 | f64
  deriving DecidableEq, Repr, Inhabited

class Scalar (α : Type) where
  zero : α
  one : α
  /-- start value of `Iterator::sum` for floats in Rust ≥ 1.83 is `-0.0` -/
  sumInit : α
  add : α → α → α
  sub : α → α → α
  mul : α → α → α
  div : α → α → α
  /-- IEEE `<` (false when unordered) -/
  lt : α → α → Bool
  /-- IEEE `<=` (false when unordered) -/
  le : α → α → Bool
  /-- IEEE `==` (false when unordered) -/
  eq : α → α → Bool
  isNaN : α → Bool
  /-- `approx::ulps_eq!(a, b)` with the default epsilon (machine epsilon) and 4 ulps -/
  ulpsEq : α → α → Bool
  /-- `approx_ext::is_zero(v)` = `ulps_eq!(v, 0)`; at value level: `|v| ≤ ε` -/
  isZero : α → Bool
  /-- `approx_ext::is_one(v)` = `ulps_eq!(v, 1)`; at value level: `1-2ε ≤ v ≤ 1+4ε` -/
  isOne : α → Bool

namespace Scalar
variable {α : Type} [Scalar α]

scoped instance : Add α := ⟨Scalar.add⟩
scoped instance : Sub α := ⟨Scalar.sub⟩
scoped instance : Mul α := ⟨Scalar.mul⟩
scoped instance : Div α := ⟨Scalar.div⟩

@[inline] def two : α := add (one : α) one
@[inline] def gt (a b : α) : Bool := lt b a
@[inline] def ge (a b : α) : Bool := le b a

/-- Rust `f64::min`: a NaN operand is ignored. -/
@[inline] def min (a b : α) : α :=
  if isNaN a then b else if isNaN b then a else if lt b a then b else a

/-- Rust `f64::max`: a NaN operand is ignored. -/
@[inline] def max (a b : α) : α :=
  if isNaN a then b else if isNaN b then a else if lt a b then b else a

/-- `approx_ext::is_in_range(v, from, to)` -/
@[inline] def isInRange (v lo hi : α) : Bool :=
  (ge v lo && le v hi) || ulpsEq v lo || ulpsEq v hi

/-- `approx_ext::in_unit_interval(v)` = `is_in_range(v, 0, 1)` -/
@[inline] def inUnit (v : α) : Bool := (ge v (zero : α) && le v (one : α)) || isZero v || isOne v

end Scalar
end SLV
