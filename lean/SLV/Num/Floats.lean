/-
  Native IEEE twins: `Float` (binary64) and `Float32` (binary32) as `Scalar` instances,
  with `approx` 0.5.1's bit-level `ulps_eq`, plus exact decoding of bit patterns into `XQ`.
-/
import SLV.Num.XQ
namespace SLV

namespace F64
def eps : Float := Float.ofBits 0x3CB0000000000000  -- 2^-52

/-- `num_traits` `signum`: NaN ↦ NaN, otherwise ±1 by the sign bit -/
def signBit (x : Float) : Bool := (x.toBits >>> 63) == 1

def absDiffEq (a b e : Float) : Bool := Float.abs (a - b) <= e

def ulpsEqWith (a b e : Float) (maxUlps : UInt64) : Bool :=
  if absDiffEq a b e then true
  else if a.isNaN || b.isNaN then false
  else if signBit a != signBit b then false
  else
    let ia := a.toBits
    let ib := b.toBits
    if ia <= ib then ib - ia <= maxUlps else ia - ib <= maxUlps

def ulpsEq (a b : Float) : Bool := ulpsEqWith a b eps 4

instance : Scalar Float where
  zero := 0.0
  one := 1.0
  sumInit := Float.ofBits 0x8000000000000000
  add := Float.add
  sub := Float.sub
  mul := Float.mul
  div := Float.div
  lt a b := a < b
  le a b := a <= b
  eq a b := a == b
  isNaN := Float.isNaN
  ulpsEq := ulpsEq
  isZero v := ulpsEq v 0.0
  isOne v := ulpsEq v 1.0
end F64

namespace F32
def eps : Float32 := Float32.ofBits 0x34000000  -- 2^-23

def signBit (x : Float32) : Bool := (x.toBits >>> 31) == 1

def absDiffEq (a b e : Float32) : Bool := Float32.abs (a - b) <= e

def ulpsEqWith (a b e : Float32) (maxUlps : UInt32) : Bool :=
  if absDiffEq a b e then true
  else if a.isNaN || b.isNaN then false
  else if signBit a != signBit b then false
  else
    let ia := a.toBits
    let ib := b.toBits
    if ia <= ib then ib - ia <= maxUlps else ia - ib <= maxUlps

def ulpsEq (a b : Float32) : Bool := ulpsEqWith a b eps 4

instance : Scalar Float32 where
  zero := 0.0
  one := 1.0
  sumInit := Float32.ofBits 0x80000000
  add := Float32.add
  sub := Float32.sub
  mul := Float32.mul
  div := Float32.div
  lt a b := a < b
  le a b := a <= b
  eq a b := a == b
  isNaN := Float32.isNaN
  ulpsEq := ulpsEq
  isZero v := ulpsEq v 0.0
  isOne v := ulpsEq v 1.0
end F32

/-- Decode an IEEE bit pattern of format `f` (given as a natural number) into its exact value. -/
def decodeBits (f : Fmt) (bits : Nat) : XQ f :=
  let m := f.mant
  let ebits := match f with | .f32 => 8 | .f64 => 11
  let sign := (bits >>> (m + ebits)) % 2
  let expo := (bits >>> m) % (2 ^ ebits)
  let frac := bits % (2 ^ m)
  if expo == 2 ^ ebits - 1 then
    if frac == 0 then (if sign == 1 then .ninf else .pinf) else .nan
  else
    let mag : Rat :=
      if expo == 0 then (frac : Rat) * Fmt.pow2 (f.emin - m)
      else ((2 ^ m + frac : Nat) : Rat) * Fmt.pow2 ((expo : Int) - f.emax - m)
    .fin (if sign == 1 then -mag else mag)

/-- sign bit of a pattern (used where -0.0 matters) -/
def bitsSign (f : Fmt) (bits : Nat) : Bool :=
  let ebits := match f with | .f32 => 8 | .f64 => 11
  (bits >>> (f.mant + ebits)) % 2 == 1

end SLV
