/-
  XQ: exact rationals extended with +inf, -inf, NaN.  No rounding.
  The tolerance predicates are the value-level meaning of `approx::ulps_eq!`
  for the format `f`: on values that are representable in `f` they decide
  exactly as the bit-level definition does (see `ulpIdx`).
  Signed zero is not distinguished (a zero divisor behaves like +0).
-/
import SLV.Num.Scalar
namespace SLV

inductive XQ (f : Fmt) : Type where
  | fin (q : Rat)
  | pinf
  | ninf
  | nan
  deriving DecidableEq, Repr, Inhabited

namespace Fmt
/-- number of explicit mantissa bits -/
def mant : Fmt → Nat | .f32 => 23 | .f64 => 52
/-- minimum normal exponent -/
def emin : Fmt → Int | .f32 => -126 | .f64 => -1022
/-- exponent bias / max exponent -/
def emax : Fmt → Int | .f32 => 127 | .f64 => 1023
def pow2 (e : Int) : Rat := if e ≥ 0 then ((2 ^ e.toNat : Nat) : Rat) else 1 / ((2 ^ (-e).toNat : Nat) : Rat)
/-- machine epsilon 2^-mant -/
def eps (f : Fmt) : Rat := 1 / ((2 ^ f.mant : Nat) : Rat)
end Fmt

/-- floor(log2 q) for q > 0 -/
def ilog2 (q : Rat) : Int :=
  let n := q.num.toNat
  let d := q.den
  let e0 : Int := (Nat.log2 n : Int) - (Nat.log2 d : Int)
  -- e0 - 1 ≤ floor(log2 q) ≤ e0  (since 2^log2 n ≤ n < 2^(log2 n+1), same for d)
  if Fmt.pow2 e0 ≤ q then (if Fmt.pow2 (e0 + 1) ≤ q then e0 + 1 else e0) else e0 - 1

/-- The (real-valued, piecewise linear) extension of "bit pattern as an integer" for |q|:
    on representable non-negative values it is exactly `to_bits()`. -/
def ulpIdx (f : Fmt) (q : Rat) : Rat :=
  let a := if q < 0 then -q else q
  let p : Rat := ((2 ^ f.mant : Nat) : Rat)
  if a < Fmt.pow2 f.emin then a / Fmt.pow2 (f.emin - f.mant)
  else
    let e := ilog2 a
    (((e - f.emin + 1 : Int) : Rat)) * p + (a / Fmt.pow2 e - 1) * p

namespace XQ
variable {f : Fmt}

def add : XQ f → XQ f → XQ f
  | nan, _ => nan | _, nan => nan
  | pinf, ninf => nan | ninf, pinf => nan
  | pinf, _ => pinf | _, pinf => pinf
  | ninf, _ => ninf | _, ninf => ninf
  | fin a, fin b => fin (a + b)

def neg : XQ f → XQ f
  | nan => nan | pinf => ninf | ninf => pinf | fin a => fin (-a)

def sub (a b : XQ f) : XQ f := add a (neg b)

/-- sign of an extended value with 0 counted as positive: true = non-negative -/
def nonneg : XQ f → Bool
  | fin a => decide (0 ≤ a) | pinf => true | ninf => false | nan => true

def isZeroFin : XQ f → Bool
  | fin a => decide (a = 0) | _ => false

def mul : XQ f → XQ f → XQ f
  | nan, _ => nan | _, nan => nan
  | fin a, fin b => fin (a * b)
  | a, b =>
    -- at least one infinite
    if isZeroFin a || isZeroFin b then nan
    else if nonneg a == nonneg b then pinf else ninf

def div : XQ f → XQ f → XQ f
  | nan, _ => nan | _, nan => nan
  | fin a, fin b =>
    if b = 0 then (if a = 0 then nan else if 0 < a then pinf else ninf) else fin (a / b)
  | fin _, _ => fin 0
  | pinf, fin b => if 0 ≤ b then pinf else ninf
  | ninf, fin b => if 0 ≤ b then ninf else pinf
  | _, _ => nan

def lt : XQ f → XQ f → Bool
  | nan, _ => false | _, nan => false
  | fin a, fin b => decide (a < b)
  | ninf, ninf => false | ninf, _ => true
  | _, ninf => false
  | pinf, _ => false
  | fin _, pinf => true

def le : XQ f → XQ f → Bool
  | nan, _ => false | _, nan => false
  | fin a, fin b => decide (a ≤ b)
  | ninf, _ => true
  | _, pinf => true
  | _, ninf => false
  | pinf, _ => false

def eq : XQ f → XQ f → Bool
  | fin a, fin b => decide (a = b)
  | pinf, pinf => true | ninf, ninf => true
  | _, _ => false

def isNaN : XQ f → Bool | nan => true | _ => false

def absQ (q : Rat) : Rat := if q < 0 then -q else q

/-- value-level `ulps_eq!(a, b)`: `|a-b| ≤ ε`, or same sign and at most 4 representable steps apart -/
def ulpsEq : XQ f → XQ f → Bool
  | fin a, fin b =>
    decide (absQ (a - b) ≤ f.eps) ||
      (decide ((0 ≤ a) ↔ (0 ≤ b)) && decide (absQ (ulpIdx f a - ulpIdx f b) ≤ 4))
  | pinf, pinf => true
  | ninf, ninf => true
  | _, _ => false

/-- value-level `is_zero`: on representable values `ulps_eq!(v, 0.0)` holds iff `|v| ≤ ε`
    (the 4-ulp clause only adds subnormals, which are below ε already) -/
def isZero : XQ f → Bool
  | fin a => decide (absQ a ≤ f.eps)
  | _ => false

/-- value-level `is_one`: `|v-1| ≤ ε`, or within 4 representable steps of 1.0
    (steps are ε/2 below 1 and ε above), i.e. `1-2ε ≤ v ≤ 1+4ε` -/
def isOne : XQ f → Bool
  | fin a => decide (1 - 2 * f.eps ≤ a ∧ a ≤ 1 + 4 * f.eps)
  | _ => false

instance : Scalar (XQ f) where
  zero := fin 0
  one := fin 1
  sumInit := fin 0
  add := add
  sub := sub
  mul := mul
  div := div
  lt := lt
  le := le
  eq := eq
  isNaN := isNaN
  ulpsEq := ulpsEq
  isZero := isZero
  isOne := isOne

def toRat? : XQ f → Option Rat | fin q => some q | _ => none

end XQ
end SLV
