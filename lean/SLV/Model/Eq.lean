/-
  Model of the comparisons: IEEE `==`, and `approx` 0.5.1's `abs_diff_eq`, `relative_eq`, `ulps_eq`
  on scalars (transcribed from approx/src/{abs_diff_eq,relative_eq,ulps_eq}.rs), lifted to
  `BOpinion` (src/bi.rs:379-423: conjunction over b, d, u, a) and to derived / manual `PartialEq`
  of `Simplex`, `OpinionBase`, `MArr*`, `MArrD*` (cell-wise).
-/
import SLV.Model.Bi
import SLV.Num.Floats
namespace SLV
open Scalar

/-- what the approximate comparisons need beyond `Scalar` -/
class CmpScalar (α : Type) extends Scalar α where
  abs : α → α
  isInf : α → Bool
  /-- `signum` equal and bit patterns at most `k` apart (the last clause of `ulps_eq`) -/
  ulpsWithin : α → α → Nat → Bool

namespace Cmp
variable {α : Type} [CmpScalar α]

/-- `abs_diff_eq`: `|a - b| <= eps` -/
def absDiffEq (a b eps : α) : Bool := Scalar.le (CmpScalar.abs (Scalar.sub a b)) eps

/-- `relative_eq` -/
def relativeEq (a b eps maxRel : α) : Bool :=
  if Scalar.eq a b then true
  else if CmpScalar.isInf a || CmpScalar.isInf b then false
  else
    let absDiff := CmpScalar.abs (Scalar.sub a b)
    if Scalar.le absDiff eps then true
    else
      let absA := CmpScalar.abs a
      let absB := CmpScalar.abs b
      let largest := if Scalar.gt absB absA then absB else absA
      Scalar.le absDiff (Scalar.mul largest maxRel)

/-- `ulps_eq` -/
def ulpsEq (a b eps : α) (maxUlps : Nat) : Bool :=
  if absDiffEq a b eps then true else CmpScalar.ulpsWithin a b maxUlps

/-- the four comparisons on `BOpinion`; kind 0 `==`, 1 abs_diff_eq, 2 relative_eq, 3 ulps_eq -/
def scalarCmp (kind : Nat) (eps maxRel : α) (maxUlps : Nat) (a b : α) : Bool :=
  match kind with
  | 0 => Scalar.eq a b
  | 1 => absDiffEq a b eps
  | 2 => relativeEq a b eps maxRel
  | _ => ulpsEq a b eps maxUlps

def bopCmp (kind : Nat) (eps maxRel : α) (maxUlps : Nat) (x y : BOp α) : Bool :=
  scalarCmp kind eps maxRel maxUlps x.b y.b && scalarCmp kind eps maxRel maxUlps x.d y.d
    && scalarCmp kind eps maxRel maxUlps x.u y.u && scalarCmp kind eps maxRel maxUlps x.a y.a

/-- cell-wise `==` of containers -/
def tabEq {n : Nat} (x y : Tab α n) : Bool := (List.zip x.toList y.toList).all fun p => Scalar.eq p.1 p.2

def simplexEq {n : Nat} (x y : Simplex α n) : Bool := tabEq x.b y.b && Scalar.eq x.u y.u
def opinionEq {n : Nat} (x y : Opinion α n) : Bool := simplexEq x.simplex y.simplex && tabEq x.a y.a

end Cmp

instance {f : Fmt} : CmpScalar (XQ f) where
  toScalar := inferInstance
  abs := fun x => match x with | .fin q => .fin (XQ.absQ q) | .ninf => .pinf | y => y
  isInf := fun x => match x with | .pinf => true | .ninf => true | _ => false
  ulpsWithin := fun a b k => match a, b with
    | .fin x, .fin y => decide ((0 ≤ x) ↔ (0 ≤ y)) && decide (XQ.absQ (ulpIdx f x - ulpIdx f y) ≤ (k : Rat))
    | .pinf, .pinf => true
    | .ninf, .ninf => true
    | _, _ => false

instance : CmpScalar Float where
  toScalar := inferInstance
  abs := Float.abs
  isInf := Float.isInf
  ulpsWithin := fun a b k =>
    if a.isNaN || b.isNaN then false
    else if F64.signBit a != F64.signBit b then false
    else
      let ia := a.toBits.toNat
      let ib := b.toBits.toNat
      if ia ≤ ib then ib - ia ≤ k else ia - ib ≤ k

instance : CmpScalar Float32 where
  toScalar := inferInstance
  abs := Float32.abs
  isInf := Float32.isInf
  ulpsWithin := fun a b k =>
    if a.isNaN || b.isNaN then false
    else if F32.signBit a != F32.signBit b then false
    else
      let ia := a.toBits.toNat
      let ib := b.toBits.toNat
      if ia ≤ ib then ib - ia ≤ k else ia - ib ≤ k

end SLV
