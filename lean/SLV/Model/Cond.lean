/-
  Model of src/mul.rs:739-992 : mbr, deduce_of, Deduction, InverseCondition, Abduction.
  X has n values, Y has m values; a conditional table is `Tab (Simplex α m) n`.
-/
import SLV.Model.Basic
namespace SLV
open Scalar

variable {α : Type} [Scalar α] {n m : Nat}

abbrev CondTab (α : Type) (n m : Nat) := Vector (Simplex α m) n

/-- `mul::mbr` (src/mul.rs:739-763) -/
def mbr (ax : Tab α n) (conds : CondTab α n m) : Option (Tab α m) :=
  if conds.toList.all (fun c => c.isVacuous) then none
  else
    let raw : Tab α m := Vector.ofFn fun y =>
      Tab.sumIter (Vector.ofFn fun x : Fin n => ax[x] * (conds[x]).b[y])
    let sumA := Tab.sumLoop raw
    if Scalar.eq sumA Scalar.zero then none
    else some (raw.map fun a => a / sumA)

/-- `mul::projections` -/
def projections (conds : CondTab α n m) (ay : Tab α m) : Vector (Tab α m) n :=
  conds.map fun c => c.projection ay

/-- `mul::deduce_of` (src/mul.rs:782-830) -/
def deduceOf (wx : Opinion α n) (conds : CondTab α n m) (ay : Tab α m) : Opinion α m :=
  let condP := projections conds ay
  let pyhx : Tab α m := Vector.ofFn fun y =>
    Tab.sumIter (Vector.ofFn fun x : Fin n => wx.a[x] * (condP[x])[y])
  let uyhx : α := Tab.reduceMin (Vector.ofFn fun y : Fin m =>
    (pyhx[y] - Tab.reduceMin (Vector.ofFn fun x : Fin n => (conds[x]).b[y])) / ay[y])
  let u := uyhx - Tab.sumIter (Vector.ofFn fun x : Fin n => (uyhx - (conds[x]).u) * wx.b[x])
  -- repair 9ec2d8b: rounding residue below zero is clamped (`<` is false for NaN: NaN passes through)
  let u := if Scalar.lt u Scalar.zero then Scalar.zero else u
  let p := wx.projection
  let b : Tab α m := Vector.ofFn fun y =>
    let b := Tab.sumIter (Vector.ofFn fun x : Fin n => p[x] * (condP[x])[y]) - ay[y] * u
    if Scalar.lt b Scalar.zero then Scalar.zero else b
  Opinion.mk' (Simplex.normalized b u) ay

/-- `Deduction::deduce` -/
def deduce (wx : Opinion α n) (conds : CondTab α n m) : Option (Opinion α m) :=
  match mbr wx.a conds with
  | none => none
  | some ay => some (deduceOf wx conds ay)

/-- `Deduction::deduce_with`; returns the result and whether the fallback closure was called -/
def deduceWith (wx : Opinion α n) (conds : CondTab α n m) (fallback : Unit → Tab α m) :
    Opinion α m × Bool :=
  match mbr wx.a conds with
  | none => (deduceOf wx conds (fallback ()), true)
  | some ay => (deduceOf wx conds ay, false)

/-- `InverseCondition::inverse` (src/mul.rs:898-953) -/
def inverse (conds : CondTab α n m) (ax : Tab α n) (ay : Tab α m) : CondTab α m n :=
  let pyx : Vector (Tab α m) n := conds.map fun c => c.projection ay
  let uyx : Tab α n := Vector.ofFn fun x => (conds[x]).maxUncertainty ay
  let temp : Vector (Tab α n) m := Vector.ofFn fun y =>
    let allZero := (List.finRange n).all fun x => isZero (pyx[x])[y]
    if allZero then Vector.replicate n Scalar.one
    else
      let q := Tab.sumIter (Vector.ofFn fun x : Fin n => ax[x] * (pyx[x])[y])
      Vector.ofFn fun x => (pyx[x])[y] / q
  let pxy : Vector (Tab α n) m := Vector.ofFn fun y => Vector.ofFn fun x => (temp[y])[x] * ax[x]
  let irrel : Tab α m := Vector.ofFn fun y =>
    Scalar.one - Tab.reduceMax (Vector.ofFn fun x : Fin n => (pyx[x])[y])
      + Tab.reduceMin (Vector.ofFn fun x : Fin n => (pyx[x])[y])
  let maxUxy : Tab α m := Vector.ofFn fun y => Tab.reduceMin (temp[y])
  let uyxSum := Tab.sumIter uyx
  let weights : Tab α n :=
    if Scalar.eq uyxSum Scalar.zero then Vector.replicate n Scalar.zero
    else Vector.ofFn fun x => uyx[x] / uyxSum
  let maxUyx : Tab α n := Vector.ofFn fun x =>
    Tab.reduceL Scalar.min
      (((List.finRange m).filter fun y => !isZero ay[y]).map fun y => (pyx[x])[y] / ay[y]) Scalar.one
  let weightedU : Tab α n := Vector.ofFn fun x =>
    let u := maxUyx[x]
    if isZero u then Scalar.zero else weights[x] * uyx[x] / u
  let wprop := Tab.sumIter weightedU
  Vector.ofFn fun y =>
    let u := maxUxy[y] * (wprop + irrel[y] - wprop * irrel[y])
    let b : Tab α n := Vector.ofFn fun x =>
      let b := (pxy[y])[x] - u * ax[x]
      if Scalar.lt b Scalar.zero then Scalar.zero else b
    Simplex.normalized b u

/-- `Abduction::abduce_with` -/
def abduceWith (wy : Simplex α m) (conds : CondTab α n m) (ax : Tab α n) (ay : Tab α m) :
    Opinion α n :=
  let inv := inverse conds ax ay
  deduceOf (Opinion.mk' wy ay) inv ax

/-- `Abduction::abduce` -/
def abduce (wy : Simplex α m) (conds : CondTab α n m) (ax : Tab α n) : Option (Opinion α n) :=
  match mbr ax conds with
  | none => none
  | some ay => some (abduceWith wy conds ax ay)

end SLV
