/-
  The operators of the PINNED tree (commit 97e2add) that violate a property and were repaired by
  `fix:` commits in /repo.  Kept verbatim so that the kernel-checked witnesses in
  SLV/Props/Pinned.lean keep documenting what was wrong.  Not used by the driver.
-/
import SLV.Model.Bi
import SLV.Model.Cond
import SLV.Model.Fuse
import SLV.Model.Prod
namespace SLV.Pinned
open SLV Scalar BOp

variable {α : Type} [Scalar α]

/-- `BOpinion::mul` (src/bi.rs:163-175); error ≙ panic of `new` -/
def mul (x y : BOp α) : Except Label (BOp α) :=
  let one : α := Scalar.one
  let a := x.a * y.a
  let b := x.b * y.b
    + ((one - x.a) * y.a * x.b * y.u + (one - y.a) * x.a * y.b * x.u) / (one - a)
  let d := x.d + y.d - x.d * y.d
  let u := x.u * y.u
    + ((one - y.a) * x.b * y.u + (one - x.b) * y.b * x.u) / (one - a)
  BOp.tryNew b d u a

/-- `BOpinion::mul` after repair 19ab0b8 and before the cancellation repair: the divisor `1 - ax*ay` is evaluated as
    `1.0 - a` from the already rounded product `a` (catastrophic cancellation when both base rates approach 1) -/
def mulCancel (x y : BOp α) : Except Label (BOp α) :=
  let one : α := Scalar.one
  let a := x.a * y.a
  let b := x.b * y.b
    + ((one - x.a) * y.a * x.b * y.u + (one - y.a) * x.a * y.b * x.u) / (one - a)
  let d := x.d + y.d - x.d * y.d
  let u := x.u * y.u
    + ((one - y.a) * x.b * y.u + (one - x.a) * y.b * x.u) / (one - a)
  BOp.tryNew b d u a

/-- `BOpinion::comul` (src/bi.rs:178-189) -/
def comul (x y : BOp α) : Except Label (BOp α) :=
  let one : α := Scalar.one
  let a := x.a + y.a - x.a * y.a
  let b := x.b + y.b - x.b * y.b
  let d := x.d * y.d
    + (x.a * (one - y.a) * x.d * y.u + y.a * (one - x.a) * y.d * x.u) / a
  let u := x.u * y.u + (y.a * x.b * y.u + x.a * y.b * x.u) / a
  BOp.tryNew b d u a

/-- the correction term `k` and the case taken, `BOpinion::deduce` (src/bi.rs:261-342).
    `c0 = (b,d,u)` of y|x, `c1` of y|¬x. -/
def deduceK (w : BOp α) (c0 c1 : α × α × α) (ay : α) : α × DCase :=
  let one : α := Scalar.one
  let b0 := c0.1; let d0 := c0.2.1; let u0 := c0.2.2
  let b1 := c1.1; let d1 := c1.2.1; let u1 := c1.2.2
  let rvax := one - w.a
  let bi := w.b * b0 + w.d * b1 + w.u * (b0 * w.a + b1 * rvax)
  let di := w.b * d0 + w.d * d1 + w.u * (d0 * w.a + d1 * rvax)
  let bp := gt b0 b1
  let dp := gt d0 d1
  if bp == dp then (Scalar.zero, .I)
  else
    let pyx := b0 * w.a + b1 * rvax + ay * (u0 * w.a + u1 * rvax)
    let px := BOp.projection w
    let r := b1 + ay * (one - b1 - d0)
    match gt pyx r, gt px w.a with
    | false, false =>
      if bp then (w.a * w.u * (bi - b1) / (px * ay), .IIA1)
      else (rvax * w.u * (di - d1) * (b1 - b0) / (px * ay * (d0 - d1)), .IIIA1)
    | false, true =>
      if bp then (w.a * w.u * (di - d0) * (b0 - b1) / ((one - px) * ay * (d1 - d0)), .IIA2)
      else (rvax * w.u * (bi - b0) / ((one - px) * ay), .IIIA2)
    | true, false =>
      if bp then (rvax * w.u * (bi - b1) * (d1 - d0) / (px * (one - ay) * (b0 - b1)), .IIB1)
      else (w.a * w.u * (di - d1) / (px * (one - ay)), .IIIB1)
    | true, true =>
      if bp then (rvax * w.u * (di - d0) / ((one - px) * (one - ay)), .IIB2)
      else (w.a * w.u * (bi - b0) * (d0 - d1) / ((one - px) * (one - ay) * (b1 - b0)), .IIIB2)

/-- `BOpinion::deduce` -/
def deduce (w : BOp α) (c0 c1 : α × α × α) (ay : α) : Except Label (BOp α) × DCase :=
  let one : α := Scalar.one
  let b0 := c0.1; let d0 := c0.2.1; let u0 := c0.2.2
  let b1 := c1.1; let d1 := c1.2.1; let u1 := c1.2.2
  let rvax := one - w.a
  let bi := w.b * b0 + w.d * b1 + w.u * (b0 * w.a + b1 * rvax)
  let di := w.b * d0 + w.d * d1 + w.u * (d0 * w.a + d1 * rvax)
  let ui := w.b * u0 + w.d * u1 + w.u * (u0 * w.a + u1 * rvax)
  let kc := deduceK w c0 c1 ay
  let k := kc.1
  (BOp.tryNew (bi - ay * k) (di - (one - ay) * k) (ui + k) ay, kc.2)

/-! after repair 1f68bd6, before repair 4d5bbb1 -/
/-- after repair 1f68bd6, before repair 4d5bbb1: the correction term `k` and the case taken, `BOpinion::deduce`
    (src/bi.rs:261-342) WITHOUT the tie arm; at `d0 == d1` (or `b0 == b1`) rounding of `pyx > r` can select II.A.2 / III.B.2 = 0/0.
    `c0 = (b,d,u)` of y|x, `c1` of y|¬x. -/
def deduceKNoTie (w : BOp α) (c0 c1 : α × α × α) (ay : α) : α × DCase :=
  let one : α := Scalar.one
  let b0 := c0.1; let d0 := c0.2.1; let u0 := c0.2.2
  let b1 := c1.1; let d1 := c1.2.1; let u1 := c1.2.2
  let rvax := one - w.a
  let bi := w.b * b0 + w.d * b1 + w.u * (b0 * w.a + b1 * rvax)
  let di := w.b * d0 + w.d * d1 + w.u * (d0 * w.a + d1 * rvax)
  let bp := gt b0 b1
  let dp := gt d0 d1
  if bp == dp then (Scalar.zero, .I)
  else
    let pyx := b0 * w.a + b1 * rvax + ay * (u0 * w.a + u1 * rvax)
    let px := BOp.projection w
    let r := if bp then b1 + ay * (one - b1 - d0) else b0 + ay * (one - b0 - d1)
    match gt pyx r, gt px w.a with
    | false, false =>
      if bp then (w.a * w.u * (bi - b1) / (px * ay), .IIA1)
      else (rvax * w.u * (di - d1) * (b1 - b0) / (px * ay * (d0 - d1)), .IIIA1)
    | false, true =>
      if bp then (w.a * w.u * (di - d0) * (b0 - b1) / ((one - px) * ay * (d1 - d0)), .IIA2)
      else (rvax * w.u * (bi - b0) / ((one - px) * ay), .IIIA2)
    | true, false =>
      if bp then (rvax * w.u * (bi - b1) * (d1 - d0) / (px * (one - ay) * (b0 - b1)), .IIB1)
      else (w.a * w.u * (di - d1) / (px * (one - ay)), .IIIB1)
    | true, true =>
      if bp then (rvax * w.u * (di - d0) / ((one - px) * (one - ay)), .IIB2)
      else (w.a * w.u * (bi - b0) * (d0 - d1) / ((one - px) * (one - ay) * (b1 - b0)), .IIIB2)

/-- `BOpinion::deduce` after repair 1f68bd6, before repair 4d5bbb1 -/
def deduceNoTie (w : BOp α) (c0 c1 : α × α × α) (ay : α) : Except Label (BOp α) × DCase :=
  let one : α := Scalar.one
  let b0 := c0.1; let d0 := c0.2.1; let u0 := c0.2.2
  let b1 := c1.1; let d1 := c1.2.1; let u1 := c1.2.2
  let rvax := one - w.a
  let bi := w.b * b0 + w.d * b1 + w.u * (b0 * w.a + b1 * rvax)
  let di := w.b * d0 + w.d * d1 + w.u * (d0 * w.a + d1 * rvax)
  let ui := w.b * u0 + w.d * u1 + w.u * (u0 * w.a + u1 * rvax)
  let kc := deduceKNoTie w c0 c1 ay
  let k := kc.1
  (BOp.tryNew (bi - ay * k) (di - (one - ay) * k) (ui + k) ay, kc.2)


/-! after repair 4d5bbb1, before repair b163717: nine-branch `deduce` (Case I, tie arm, eight closed forms) -/
/-- after repair 4d5bbb1, before repair b163717: the correction term `k` and the case taken, `BOpinion::deduce`.
    The sub-case is selected by the rounded comparisons `pyx > r`, `px > a`, and the closed forms contain the
    cancelling differences `bi - b1`, `di - d0`, .. and quotients of two such differences: on decimal operands a
    rounding-decided sub-case gives a `k` slightly too large and `new` rejects b or d (a few ulps below 0).
    `c0 = (b,d,u)` of y|x, `c1` of y|¬x. -/
def deduceKNineBranch (w : BOp α) (c0 c1 : α × α × α) (ay : α) : α × DCase :=
  let one : α := Scalar.one
  let b0 := c0.1; let d0 := c0.2.1; let u0 := c0.2.2
  let b1 := c1.1; let d1 := c1.2.1; let u1 := c1.2.2
  let rvax := one - w.a
  let bi := w.b * b0 + w.d * b1 + w.u * (b0 * w.a + b1 * rvax)
  let di := w.b * d0 + w.d * d1 + w.u * (d0 * w.a + d1 * rvax)
  let bp := gt b0 b1
  let dp := gt d0 d1
  if bp == dp then (Scalar.zero, .I)
  -- a tie in belief or in disbelief (repair 4d5bbb1): decided before the sub-case comparison
  else if Scalar.eq b0 b1 || Scalar.eq d0 d1 then (Scalar.zero, .Tie)
  else
    let pyx := b0 * w.a + b1 * rvax + ay * (u0 * w.a + u1 * rvax)
    let px := BOp.projection w
    let r := if bp then b1 + ay * (one - b1 - d0) else b0 + ay * (one - b0 - d1)
    match gt pyx r, gt px w.a with
    | false, false =>
      if bp then (w.a * w.u * (bi - b1) / (px * ay), .IIA1)
      else (rvax * w.u * (di - d1) * (b1 - b0) / (px * ay * (d0 - d1)), .IIIA1)
    | false, true =>
      if bp then (w.a * w.u * (di - d0) * (b0 - b1) / ((one - px) * ay * (d1 - d0)), .IIA2)
      else (rvax * w.u * (bi - b0) / ((one - px) * ay), .IIIA2)
    | true, false =>
      if bp then (rvax * w.u * (bi - b1) * (d1 - d0) / (px * (one - ay) * (b0 - b1)), .IIB1)
      else (w.a * w.u * (di - d1) / (px * (one - ay)), .IIIB1)
    | true, true =>
      if bp then (rvax * w.u * (di - d0) / ((one - px) * (one - ay)), .IIB2)
      else (w.a * w.u * (bi - b0) * (d0 - d1) / ((one - px) * (one - ay) * (b1 - b0)), .IIIB2)

/-- `BOpinion::deduce` after repair 4d5bbb1, before repair b163717 -/
def deduceNineBranch (w : BOp α) (c0 c1 : α × α × α) (ay : α) : Except Label (BOp α) × DCase :=
  let one : α := Scalar.one
  let b0 := c0.1; let d0 := c0.2.1; let u0 := c0.2.2
  let b1 := c1.1; let d1 := c1.2.1; let u1 := c1.2.2
  let rvax := one - w.a
  let bi := w.b * b0 + w.d * b1 + w.u * (b0 * w.a + b1 * rvax)
  let di := w.b * d0 + w.d * d1 + w.u * (d0 * w.a + d1 * rvax)
  let ui := w.b * u0 + w.d * u1 + w.u * (u0 * w.a + u1 * rvax)
  let kc := deduceKNineBranch w c0 c1 ay
  let k := kc.1
  (BOp.tryNew (bi - ay * k) (di - (one - ay) * k) (ui + k) ay, kc.2)

/-! before repair df72a91: the binomial fusions pass the un-normalised (b, d, u) to `try_new` -/
/-- `BOpinion::cfuse` before repair df72a91 (no renormalisation: the deviation of b + d + u from 1 carried by the
    operands is amplified from call to call and a fold of fusions eventually rejects its own result) -/
def cfuseUnnorm (x y : BOp α) : Except Label (BOp α) :=
  let one : α := Scalar.one
  let uu := x.u * y.u
  let kappa := x.u + y.u - uu
  let b := (x.b * y.u + y.b * x.u) / kappa
  let d := (x.d * y.u + y.d * x.u) / kappa
  let u := (x.u * y.u) / kappa
  let a :=
    if isOne x.u && isOne y.u then (x.a + y.a) / two
    else
      let ca := one - x.u
      let cb := one - y.u
      (x.a * y.u * ca + y.a * x.u * cb) / (y.u * ca + x.u * cb)
  BOp.tryNew b d u a

/-- `BOpinion::afuse` before repair df72a91 -/
def afuseUnnorm (x y : BOp α) (ga : α) : Except Label (BOp α) :=
  let one : α := Scalar.one
  let zero : α := Scalar.zero
  if isZero x.u && isZero y.u then
    let gb := one - ga
    BOp.tryNew (ga * x.b + gb * y.b) (ga * x.d + gb * y.d) zero (ga * x.a + gb * y.a)
  else
    let upu := x.u + y.u
    BOp.tryNew ((x.b * y.u + y.b * x.u) / upu) ((x.d * y.u + y.d * x.u) / upu)
      (two * x.u * y.u / upu) ((x.a + y.a) / two)

/-- `BOpinion::wfuse` before repair df72a91 -/
def wfuseUnnorm (x y : BOp α) (ga : α) : Except Label (BOp α) :=
  let one : α := Scalar.one
  let zero : α := Scalar.zero
  if isZero x.u && isZero y.u then
    let gb := one - ga
    BOp.tryNew (ga * x.b + gb * y.b) (ga * x.d + gb * y.d) zero (ga * x.a + gb * y.a)
  else if isOne x.u && isOne y.u then
    BOp.tryNew zero zero one ((x.a + y.a) / two)
  else
    let ca := one - x.u
    let cb := one - y.u
    let denom := ca * y.u + cb * x.u
    let b := (x.b * ca * y.u + y.b * cb * x.u) / denom
    let d := (x.d * ca * y.u + y.d * cb * x.u) / denom
    let u := (ca + cb) * x.u * y.u / denom
    let a := (x.a * ca + y.a * cb) / (ca + cb)
    BOp.tryNew b d u a

/-! before repair d46c983: `mul` / `comul` / `deduce` pass the un-normalised (b, d, u) to `new` -/
/-- `BOpinion::mul` before repair d46c983 (no renormalisation: the three masses come from independent formulas, their
    rounding plus the operands' own deviation from 1 leaves the window of the self-check on plain decimal operands) -/
def mulUnnorm (x y : BOp α) : Except Label (BOp α) :=
  let one : α := Scalar.one
  let a := x.a * y.a
  let na := (one - x.a) + (one - y.a) - (one - x.a) * (one - y.a)
  let b := x.b * y.b
    + ((one - x.a) * y.a * x.b * y.u + (one - y.a) * x.a * y.b * x.u) / na
  let d := x.d + y.d - x.d * y.d
  let u := x.u * y.u
    + ((one - y.a) * x.b * y.u + (one - x.a) * y.b * x.u) / na
  BOp.tryNew b d u a

/-- `BOpinion::comul` before repair d46c983 -/
def comulUnnorm (x y : BOp α) : Except Label (BOp α) :=
  let one : α := Scalar.one
  let a := x.a + y.a - x.a * y.a
  let b := x.b + y.b - x.b * y.b
  let d := x.d * y.d
    + (x.a * (one - y.a) * x.d * y.u + y.a * (one - x.a) * y.d * x.u) / a
  let u := x.u * y.u + (y.a * x.d * y.u + x.a * y.d * x.u) / a
  BOp.tryNew b d u a

/-- `BOpinion::deduce` before repair d46c983 (after repair b163717: the correction term is the current `BOp.deduceK`) -/
def deduceUnnorm (w : BOp α) (c0 c1 : α × α × α) (ay : α) : Except Label (BOp α) × DCase :=
  let one : α := Scalar.one
  let b0 := c0.1; let d0 := c0.2.1; let u0 := c0.2.2
  let b1 := c1.1; let d1 := c1.2.1; let u1 := c1.2.2
  let rvax := one - w.a
  let bi := w.b * b0 + w.d * b1 + w.u * (b0 * w.a + b1 * rvax)
  let di := w.b * d0 + w.d * d1 + w.u * (d0 * w.a + d1 * rvax)
  let ui := w.b * u0 + w.d * u1 + w.u * (u0 * w.a + u1 * rvax)
  let kc := BOp.deduceK w c0 c1 ay
  let k := kc.1
  (BOp.tryNew (bi - ay * k) (di - (one - ay) * k) (ui + k) ay, kc.2)

/-! after repair d46c983, before repair a66cfd4: `comul` with the base rates as factors of the numerators, the sum divided
    by `a`.  Subnormal base rates lose all their bits in the products before the division by the (equally small) `a`
    restores the scale; the renormalisation then turns the garbage into a well-formed opinion with a wrong belief. -/
/-- `BOpinion::comul` after repair d46c983, before repair a66cfd4 (numerators first, then `/ a`) -/
def comulNumerFirst (x y : BOp α) : Except Label (BOp α) :=
  let one : α := Scalar.one
  let a := x.a + y.a - x.a * y.a
  let b := x.b + y.b - x.b * y.b
  let d := x.d * y.d
    + (x.a * (one - y.a) * x.d * y.u + y.a * (one - x.a) * y.d * x.u) / a
  let u := x.u * y.u + (y.a * x.d * y.u + x.a * y.d * x.u) / a
  let s := b + d + u
  BOp.tryNew (b / s) (d / s) (u / s) a

/-! after repair d46c983, before repair cf81fd9: binomial `deduce` WITHOUT the clamp of `b` and `d` at zero.  Where the
    exact belief / disbelief is 0, `bi` and `ay * k` are two differently rounded evaluations of the same product and the
    difference is a residue of either sign; the constructor tolerates it and a later deduction can panic on it. -/
/-- `BOpinion::deduce` after repair d46c983, before repair cf81fd9 (no clamp of `b` / `d` at zero) -/
def bdeduceNoClamp (w : BOp α) (c0 c1 : α × α × α) (ay : α) : Except Label (BOp α) × DCase :=
  let one : α := Scalar.one
  let b0 := c0.1; let d0 := c0.2.1; let u0 := c0.2.2
  let b1 := c1.1; let d1 := c1.2.1; let u1 := c1.2.2
  let rvax := one - w.a
  let bi := w.b * b0 + w.d * b1 + w.u * (b0 * w.a + b1 * rvax)
  let di := w.b * d0 + w.d * d1 + w.u * (d0 * w.a + d1 * rvax)
  let ui := w.b * u0 + w.d * u1 + w.u * (u0 * w.a + u1 * rvax)
  let kc := BOp.deduceK w c0 c1 ay
  let k := kc.1
  let b := bi - ay * k
  let d := di - (one - ay) * k
  let u := ui + k
  let s := b + d + u
  (BOp.tryNew (b / s) (d / s) (u / s) ay, kc.2)


variable {n : Nat}

/-- `compute_simlex` (src/mul.rs:488-539) -/
def computeSimplex (op : FuseOp) (l r : Simplex α n) : Simplex α n :=
  if l.isDogmatic && r.isDogmatic then
    Simplex.normalized (Vector.ofFn fun i => (l.b[i] + r.b[i]) / two) Scalar.zero
  else
    match op with
    | .acm | .ecm =>
      if l.isVacuous && r.isVacuous then Simplex.vacuous
      else if l.isVacuous || r.isDogmatic then r
      else if r.isVacuous || l.isDogmatic then l
      else
        let lu := l.u
        let ru := r.u
        let temp := lu + ru - lu * ru
        let b : Tab α n := Vector.ofFn fun i => (l.b[i] * ru + r.b[i] * lu) / temp
        let u := lu * ru / temp
        Simplex.normalized b u
    | .avg =>
      if l.isDogmatic then l
      else if r.isDogmatic then r
      else
        let lu := l.u
        let ru := r.u
        let temp := lu + ru
        let b : Tab α n := Vector.ofFn fun i => (l.b[i] * ru + r.b[i] * lu) / temp
        let u := two * lu * ru / temp
        Simplex.normalized b u
    | .wgh =>
      if l.isVacuous && r.isVacuous then Simplex.vacuous
      else if l.isVacuous || r.isDogmatic then r
      else if r.isVacuous || l.isDogmatic then l
      else
        let lu := l.u
        let ru := r.u
        let lsb := Scalar.one - lu
        let rsb := Scalar.one - ru
        let temp := lu + ru - two * lu * ru
        let b : Tab α n := Vector.ofFn fun i => (l.b[i] * lsb * ru + r.b[i] * rsb * lu) / temp
        let u := (lsb + rsb) * lu * ru / temp
        Simplex.normalized b u

/-- the per-entry shortcut before repairs c0b2ed5 / c8a7116: `if ulps_eq!(al, ar) { al } else { f }` (the LEFT entry
    whenever the two are within the comparison tolerance, i.e. at most ε apart absolutely or 4 ulps) -/
@[inline] def brEntryLeft (al ar : α) (f : α) : α := if ulpsEq al ar then al else f

/-- `compute_base_rate` (src/mul.rs:541-618). `same` models `std::ptr::eq(lhs.base_rate, rhs.base_rate)`. -/
def computeBaseRate (op : FuseOp) (same : Bool) (l r : Opinion α n) : Tab α n :=
  if same then l.a
  else if l.isDogmatic && r.isDogmatic then
    Vector.ofFn fun i => (l.a[i] + r.a[i]) / two
  else
    let mean : Tab α n := Vector.ofFn fun i => brEntryLeft l.a[i] r.a[i] ((l.a[i] + r.a[i]) / two)
    match op with
    | .acm | .ecm =>
      if l.isVacuous && r.isVacuous then mean
      else if l.isVacuous || r.isDogmatic then r.a
      else if r.isVacuous || l.isDogmatic then l.a
      else
        let lu := l.u
        let ru := r.u
        let temp := lu + ru - lu * ru * two
        let lsb := Scalar.one - lu
        let rsb := Scalar.one - ru
        Vector.ofFn fun i =>
          brEntryLeft l.a[i] r.a[i] ((l.a[i] * ru * lsb + r.a[i] * lu * rsb) / temp)
    | .avg => mean
    | .wgh =>
      if l.isVacuous && r.isVacuous then mean
      else if l.isVacuous then r.a
      else if r.isVacuous then l.a
      else
        let lu := l.u
        let ru := r.u
        let lsb := Scalar.one - lu
        let rsb := Scalar.one - ru
        let temp := lsb + rsb
        Vector.ofFn fun i =>
          brEntryLeft l.a[i] r.a[i] ((l.a[i] * lsb + r.a[i] * rsb) / temp)

/-! after repair 1acc48a, before repairs c0b2ed5 / c8a7116: the shortcut is taken on `ulps_eq!` and returns the LEFT
    operand's entry -/
/-- `compute_base_rate` after repair 1acc48a, before repairs c0b2ed5 / c8a7116 (src/mul.rs:541-618). `same` models
    `std::ptr::eq(lhs.base_rate, rhs.base_rate)`. -/
def computeBaseRateLeft (op : FuseOp) (same : Bool) (l r : Opinion α n) : Tab α n :=
  if same then l.a
  else if l.isDogmatic && r.isDogmatic then
    Vector.ofFn fun i => (l.a[i] + r.a[i]) / two
  else
    let mean : Tab α n := Vector.ofFn fun i => brEntryLeft l.a[i] r.a[i] ((l.a[i] + r.a[i]) / two)
    match op with
    | .acm | .ecm =>
      if l.isVacuous && r.isVacuous then mean
      else if l.isVacuous || r.isDogmatic then r.a
      else if r.isVacuous || l.isDogmatic then l.a
      else
        let lu := l.u
        let ru := r.u
        let lsb := Scalar.one - lu
        let rsb := Scalar.one - ru
        let temp := ru * lsb + lu * rsb
        Vector.ofFn fun i =>
          brEntryLeft l.a[i] r.a[i] ((l.a[i] * ru * lsb + r.a[i] * lu * rsb) / temp)
    | .avg => mean
    | .wgh =>
      if l.isVacuous && r.isVacuous then mean
      else if l.isVacuous then r.a
      else if r.isVacuous then l.a
      else
        let lu := l.u
        let ru := r.u
        let lsb := Scalar.one - lu
        let rsb := Scalar.one - ru
        let temp := lsb + rsb
        Vector.ofFn fun i =>
          brEntryLeft l.a[i] r.a[i] ((l.a[i] * lsb + r.a[i] * rsb) / temp)

/-! `MaxUncertainty::uncertainty_maximized` after repair f029db5, before repair 8520ade: normalised, but WITHOUT the
    clamp of the rounding residue.  The state that attains `min P/a` has mass exactly 0; in floating point `p[i]` and
    `a[i] * u_max` round differently and the residue of either sign was divided through and returned: about -eps/4 in
    0.4-3 % of epistemic cumulative fusions, and -eps(1 + 2^-52) with `u' = 1 + 2^-52` (rejected by the checked
    constructor) for a base-rate entry at the top of the zero band. -/
/-- `MaxUncertainty::uncertainty_maximized` after repair f029db5, before repair 8520ade (no clamp of `b_max[i]` at zero) -/
def uncertaintyMaximizedNoClamp (s : Simplex α n) (a : Tab α n) : Simplex α n :=
  let p := s.projection a
  let um := s.maxUncertainty a
  Simplex.normalized (Vector.ofFn fun i => p[i] - a[i] * um) um

/-- `Fuse<OpinionRef, OpinionRef>` after repairs c0b2ed5 / c8a7116, before repair 8520ade (current simplex part, current
    base rate, `uncertainty_maximized` without the clamp) -/
def fuseNoClamp (op : FuseOp) (same : Bool) (l r : Opinion α n) : Opinion α n :=
  let s := SLV.computeSimplex op l.simplex r.simplex
  let a := SLV.computeBaseRate op same l r
  let s := if op = .ecm then uncertaintyMaximizedNoClamp s a else s
  Opinion.mk' s a

/-- `Fuse<OpinionRef, OpinionRef>` after repair f029db5, before repairs c0b2ed5 / c8a7116 (current simplex part,
    `uncertainty_maximized` of that time: normalised, no clamp; left-entry shortcut in the base rate) -/
def fuseLeft (op : FuseOp) (same : Bool) (l r : Opinion α n) : Opinion α n :=
  let s := SLV.computeSimplex op l.simplex r.simplex
  let a := computeBaseRateLeft op same l r
  let s := if op = .ecm then uncertaintyMaximizedNoClamp s a else s
  Opinion.mk' s a

/-- `BOpinion::cfuse` (src/bi.rs:192-206) -/
def cfuse (x y : BOp α) : Except Label (BOp α) :=
  let one : α := Scalar.one
  let uu := x.u * y.u
  let kappa := x.u + y.u - uu
  let b := (x.b * y.u + y.b * x.u) / kappa
  let d := (x.d * y.u + y.d * x.u) / kappa
  let u := (x.u * y.u) / kappa
  let a :=
    if isOne x.u && isOne y.u then (x.a + y.a) / two
    else (x.a * y.u + y.a * x.u - (x.a + y.a) * uu) / (kappa - uu)
  BOp.tryNew b d u a

/-- `BOpinion::wfuse` (src/bi.rs:231-257) -/
def wfuse (x y : BOp α) (ga : α) : Except Label (BOp α) :=
  let one : α := Scalar.one
  let zero : α := Scalar.zero
  if isZero x.u && isZero y.u then
    let gb := one - ga
    BOp.tryNew (ga * x.b + gb * y.b) (ga * x.d + gb * y.d) zero (ga * x.a + gb * y.a)
  else if isOne x.u && isOne y.u then
    BOp.tryNew zero zero one ((x.a + y.a) / two)
  else
    let denom := x.u + y.u - two * x.u * y.u
    let ca := one - x.u
    let cb := one - y.u
    let b := (x.b * ca * y.u + y.b * cb * x.u) / denom
    let d := (x.d * ca * y.u + y.d * cb * x.u) / denom
    let u := (two - x.u - y.u) * x.u * y.u / denom
    let a := (x.a * ca + y.a * cb) / (two - x.u - y.u)
    BOp.tryNew b d u a


variable {m : Nat}

/-- `mul::mbr` (src/mul.rs:739-763) -/
def mbr (ax : Tab α n) (conds : CondTab α n m) : Option (Tab α m) :=
  if conds.toList.all (fun c => c.isVacuous) then none
  else
    let raw : Tab α m := Vector.ofFn fun y =>
      Tab.sumIter (Vector.ofFn fun x : Fin n => ax[x] * (conds[x]).b[y])
    let sumA := Tab.sumLoop raw
    some (raw.map fun a => a / sumA)


/-- `InverseCondition::inverse` (src/mul.rs:881-926) -/
def inverse (conds : CondTab α n m) (ax : Tab α n) (ay : Tab α m) : CondTab α m n :=
  let pyx : Vector (Tab α m) n := conds.map fun c => c.projection ay
  let uyx : Tab α n := Vector.ofFn fun x => (conds[x]).maxUncertainty ay
  let temp : Vector (Tab α n) m := Vector.ofFn fun y =>
    let allZero := (List.finRange n).all fun x => Scalar.eq (pyx[x])[y] Scalar.zero
    if allZero then Vector.replicate n Scalar.one
    else
      let q := Tab.sumIter (Vector.ofFn fun x : Fin n => ax[x] * (pyx[x])[y])
      Vector.ofFn fun x => (pyx[x])[y] / q
  let pxy : Vector (Tab α n) m := Vector.ofFn fun y => Vector.ofFn fun x => (temp[y])[x] * ax[x]
  let irrel : Tab α m := Vector.ofFn fun y =>
    Scalar.one - Tab.reduceMax (Vector.ofFn fun x : Fin n => (pyx[x])[y])
      + Tab.reduceMin (Vector.ofFn fun x : Fin n => (pyx[x])[y])
  let maxUxy : Tab α m := Vector.ofFn fun y => Tab.reduceMin (temp[y])
  let uyxSum := Tab.sumIter uyx
  let weights : Tab α n :=
    if Scalar.eq uyxSum Scalar.zero then Vector.replicate n Scalar.zero
    else Vector.ofFn fun x => uyx[x] / uyxSum
  let maxUyx : Tab α n := Vector.ofFn fun x =>
    Tab.reduceMin (Vector.ofFn fun y : Fin m => (pyx[x])[y] / ay[y])
  let weightedU : Tab α n := Vector.ofFn fun x =>
    let u := maxUyx[x]
    if isZero u then Scalar.zero else weights[x] * uyx[x] / u
  let wprop := Tab.sumIter weightedU
  Vector.ofFn fun y =>
    let u := maxUxy[y] * (wprop + irrel[y] - wprop * irrel[y])
    let b : Tab α n := Vector.ofFn fun x => (pxy[y])[x] - u * ax[x]
    Simplex.normalized b u


/-- `MergeJointConditions2::merge_cond2` (src/mul.rs:1049-1060).
    `validate = true` is the unlabelled family (its `product2` validates and may panic). -/
def mergeCond2 {n1 n2 m : Nat} (validate : Bool)
    (yx1 : CondTab α n1 m) (yx2 : CondTab α n2 m)
    (ax1 : Tab α n1) (ax2 : Tab α n2) (ay : Tab α m) :
    Except Label (CondTab α (n1 * n2) m) :=
  let ay1 := (SLV.mbr ax1 yx1).getD ay
  let ay2 := (SLV.mbr ax2 yx2).getD ay
  let x1y := Pinned.inverse yx1 ax1 ay1
  let x2y := Pinned.inverse yx2 ax2 ay2
  let cells : Vector (Except Label (Simplex α (n1 * n2))) m := Vector.ofFn fun y =>
    let w1 : Opinion α n1 := Opinion.mk' x1y[y] ax1
    let w2 : Opinion α n2 := Opinion.mk' x2y[y] ax2
    if validate then
      match product2U w1 w2 with
      | .error e => .error e
      | .ok w => .ok w.simplex
    else .ok (product2L w1 w2).simplex
  match sequenceE cells with
  | .error e => .error e
  | .ok x12y =>
    let ax12 := match SLV.mbr ay x12y with
      | some a => a
      | none => outer2 ax1 ax2
    .ok (Pinned.inverse x12y ay ax12)


/-- `InverseCondition::inverse` as it was before fix e624e49 (max_u_yx divided by base rates inside the zero-tolerance band) -/
def inverseBeforeBandFix (conds : CondTab α n m) (ax : Tab α n) (ay : Tab α m) : CondTab α m n :=
  let pyx : Vector (Tab α m) n := conds.map fun c => c.projection ay
  let uyx : Tab α n := Vector.ofFn fun x => (conds[x]).maxUncertainty ay
  let temp : Vector (Tab α n) m := Vector.ofFn fun y =>
    let allZero := (List.finRange n).all fun x => isZero (pyx[x])[y]
    if allZero then Vector.replicate n Scalar.one
    else
      let q := Tab.sumIter (Vector.ofFn fun x : Fin n => ax[x] * (pyx[x])[y])
      Vector.ofFn fun x => (pyx[x])[y] / q
  let pxy : Vector (Tab α n) m := Vector.ofFn fun y => Vector.ofFn fun x => (temp[y])[x] * ax[x]
  let irrel : Tab α m := Vector.ofFn fun y =>
    Scalar.one - Tab.reduceMax (Vector.ofFn fun x : Fin n => (pyx[x])[y])
      + Tab.reduceMin (Vector.ofFn fun x : Fin n => (pyx[x])[y])
  let maxUxy : Tab α m := Vector.ofFn fun y => Tab.reduceMin (temp[y])
  let uyxSum := Tab.sumIter uyx
  let weights : Tab α n :=
    if Scalar.eq uyxSum Scalar.zero then Vector.replicate n Scalar.zero
    else Vector.ofFn fun x => uyx[x] / uyxSum
  let maxUyx : Tab α n := Vector.ofFn fun x =>
    Tab.reduceMin (Vector.ofFn fun y : Fin m => (pyx[x])[y] / ay[y])
  let weightedU : Tab α n := Vector.ofFn fun x =>
    let u := maxUyx[x]
    if isZero u then Scalar.zero else weights[x] * uyx[x] / u
  let wprop := Tab.sumIter weightedU
  Vector.ofFn fun y =>
    let u := maxUxy[y] * (wprop + irrel[y] - wprop * irrel[y])
    let b : Tab α n := Vector.ofFn fun x => (pxy[y])[x] - u * ax[x]
    Simplex.normalized b u


/-! after repairs e624e49 / 7c00713, before repair 9ec2d8b: `deduce_of` and `inverse` WITHOUT the clamp of the rounding
    residue.  A belief mass whose exact value is 0 is computed as `p - a*u` with `p = a*u` exactly; in floating point the
    difference is a residue down to about -2.5 eps, below the `-eps` the checked constructors accept. -/
/-- `mul::deduce_of` after repairs e624e49 / 7c00713, before repair 9ec2d8b (no clamp of `u` / `b[y]` at zero) -/
def deduceOfNoClamp (wx : Opinion α n) (conds : CondTab α n m) (ay : Tab α m) : Opinion α m :=
  let condP := projections conds ay
  let pyhx : Tab α m := Vector.ofFn fun y =>
    Tab.sumIter (Vector.ofFn fun x : Fin n => wx.a[x] * (condP[x])[y])
  let uyhx : α := Tab.reduceMin (Vector.ofFn fun y : Fin m =>
    (pyhx[y] - Tab.reduceMin (Vector.ofFn fun x : Fin n => (conds[x]).b[y])) / ay[y])
  let u := uyhx - Tab.sumIter (Vector.ofFn fun x : Fin n => (uyhx - (conds[x]).u) * wx.b[x])
  let p := wx.projection
  let b : Tab α m := Vector.ofFn fun y =>
    Tab.sumIter (Vector.ofFn fun x : Fin n => p[x] * (condP[x])[y]) - ay[y] * u
  Opinion.mk' (Simplex.normalized b u) ay

/-- `InverseCondition::inverse` after repairs e624e49 / 7c00713, before repair 9ec2d8b (no clamp of `b[x]` at zero) -/
def inverseNoClamp (conds : CondTab α n m) (ax : Tab α n) (ay : Tab α m) : CondTab α m n :=
  let pyx : Vector (Tab α m) n := conds.map fun c => c.projection ay
  let uyx : Tab α n := Vector.ofFn fun x => (conds[x]).maxUncertainty ay
  let temp : Vector (Tab α n) m := Vector.ofFn fun y =>
    let allZero := (List.finRange n).all fun x => isZero (pyx[x])[y]
    if allZero then Vector.replicate n Scalar.one
    else
      let q := Tab.sumIter (Vector.ofFn fun x : Fin n => ax[x] * (pyx[x])[y])
      Vector.ofFn fun x => (pyx[x])[y] / q
  let pxy : Vector (Tab α n) m := Vector.ofFn fun y => Vector.ofFn fun x => (temp[y])[x] * ax[x]
  let irrel : Tab α m := Vector.ofFn fun y =>
    Scalar.one - Tab.reduceMax (Vector.ofFn fun x : Fin n => (pyx[x])[y])
      + Tab.reduceMin (Vector.ofFn fun x : Fin n => (pyx[x])[y])
  let maxUxy : Tab α m := Vector.ofFn fun y => Tab.reduceMin (temp[y])
  let uyxSum := Tab.sumIter uyx
  let weights : Tab α n :=
    if Scalar.eq uyxSum Scalar.zero then Vector.replicate n Scalar.zero
    else Vector.ofFn fun x => uyx[x] / uyxSum
  let maxUyx : Tab α n := Vector.ofFn fun x =>
    Tab.reduceL Scalar.min
      (((List.finRange m).filter fun y => !isZero ay[y]).map fun y => (pyx[x])[y] / ay[y]) Scalar.one
  let weightedU : Tab α n := Vector.ofFn fun x =>
    let u := maxUyx[x]
    if isZero u then Scalar.zero else weights[x] * uyx[x] / u
  let wprop := Tab.sumIter weightedU
  Vector.ofFn fun y =>
    let u := maxUxy[y] * (wprop + irrel[y] - wprop * irrel[y])
    let b : Tab α n := Vector.ofFn fun x => (pxy[y])[x] - u * ax[x]
    Simplex.normalized b u

/-- `Abduction::abduce_with` before repair 9ec2d8b -/
def abduceWithNoClamp (wy : Simplex α m) (conds : CondTab α n m) (ax : Tab α n) (ay : Tab α m) :
    Opinion α n :=
  let inv := inverseNoClamp conds ax ay
  deduceOfNoClamp (Opinion.mk' wy ay) inv ax


/-! Product before fix (cells of zero base rate were divided through; a numerator that rounding or an inexactly
    normalised operand makes slightly negative then yields -inf, which wins the min) -/
/-- the part shared by both product implementations: (b, u, a) before validation / normalisation -/
def product2RawBeforeZeroCellFix {n0 n1} (w0 : Opinion α n0) (w1 : Opinion α n1) : Opinion α (n0 * n1) :=
  let p := outer2 w0.projection w1.projection
  let a := outer2 w0.a w1.a
  let bb := outer2 w0.b w1.b
  let u := Tab.reduceMin (Vector.ofFn fun k : Fin (n0 * n1) => (p[k] - bb[k]) / a[k])
  let b : Tab α (n0 * n1) := Vector.ofFn fun k => p[k] - a[k] * u
  ⟨b, u, a⟩

def product3RawBeforeZeroCellFix {n0 n1 n2} (w0 : Opinion α n0) (w1 : Opinion α n1) (w2 : Opinion α n2) :
    Opinion α (n0 * n1 * n2) :=
  let p := outer3 w0.projection w1.projection w2.projection
  let a := outer3 w0.a w1.a w2.a
  let bb := outer3 w0.b w1.b w2.b
  let u := Tab.reduceMin (Vector.ofFn fun k : Fin (n0 * n1 * n2) => (p[k] - bb[k]) / a[k])
  let b : Tab α (n0 * n1 * n2) := Vector.ofFn fun k => p[k] - a[k] * u
  ⟨b, u, a⟩

/-! Products after repair 06db2ad, before repair abca806: every candidate for the joint uncertainty is
    `(P0*P1 - b0*b1) / (a0*a1)` from the normalised projections.  The exact numerator is of the order of the joint
    base rate, but it is the difference of two rounded products of order P: for a cell of small base rate the
    difference is rounding noise of either sign, divided by that small base rate, and `min` picks the noisiest cell. -/
/-- `Product2` (both families) after repair 06db2ad, before repair abca806 -/
def product2RawCancel {n0 n1} (w0 : Opinion α n0) (w1 : Opinion α n1) : Opinion α (n0 * n1) :=
  let p := outer2 w0.projection w1.projection
  let a := outer2 w0.a w1.a
  let bb := outer2 w0.b w1.b
  let u := Tab.reduceL Scalar.min
    (((List.finRange (n0 * n1)).filter fun k => Scalar.gt a[k] Scalar.zero).map fun k => (p[k] - bb[k]) / a[k])
    (Tab.nanOf α)
  let b : Tab α (n0 * n1) := Vector.ofFn fun k => p[k] - a[k] * u
  ⟨b, u, a⟩

/-- `Product3` (both families) after repair 06db2ad, before repair abca806 -/
def product3RawCancel {n0 n1 n2} (w0 : Opinion α n0) (w1 : Opinion α n1) (w2 : Opinion α n2) :
    Opinion α (n0 * n1 * n2) :=
  let p := outer3 w0.projection w1.projection w2.projection
  let a := outer3 w0.a w1.a w2.a
  let bb := outer3 w0.b w1.b w2.b
  let u := Tab.reduceL Scalar.min
    (((List.finRange (n0 * n1 * n2)).filter fun k => Scalar.gt a[k] Scalar.zero).map fun k => (p[k] - bb[k]) / a[k])
    (Tab.nanOf α)
  let b : Tab α (n0 * n1 * n2) := Vector.ofFn fun k => p[k] - a[k] * u
  ⟨b, u, a⟩

/-! Products after repair abca806, before repair b817f74: the joint belief masses `p[d] - a[d] * u` WITHOUT the clamp at
    zero.  For the cell that attains the minimum the exact mass is `b0*b1` (often 0); `p` (outer product of the
    projections, each renormalised by its own sum) and `a*u` round differently and the residue reached -1.5 .. -4.5 eps,
    below the validators' -eps: the unlabelled products panicked in `Opinion::new` ("b[..] ∈ [0,1] is not satisfied"), the
    labelled ones (`Opinion::normalized`, no validation) returned the negative mass. -/
/-- the part shared by `Product2` of both families after repair abca806, before repair b817f74 -/
def product2NoClamp {n0 n1} (w0 : Opinion α n0) (w1 : Opinion α n1) : Opinion α (n0 * n1) :=
  let p := outer2 w0.projection w1.projection
  let a := outer2 w0.a w1.a
  let u := Tab.reduceL Scalar.min
    (((List.finRange (n0 * n1)).filter fun k => Scalar.gt a[k] Scalar.zero).map fun k => prodCand2 w0 w1 (idx2 k))
    (Tab.nanOf α)
  let b : Tab α (n0 * n1) := Vector.ofFn fun k => p[k] - a[k] * u
  ⟨b, u, a⟩

/-- the part shared by `Product3` of both families after repair abca806, before repair b817f74 -/
def product3NoClamp {n0 n1 n2} (w0 : Opinion α n0) (w1 : Opinion α n1) (w2 : Opinion α n2) :
    Opinion α (n0 * n1 * n2) :=
  let p := outer3 w0.projection w1.projection w2.projection
  let a := outer3 w0.a w1.a w2.a
  let u := Tab.reduceL Scalar.min
    (((List.finRange (n0 * n1 * n2)).filter fun k => Scalar.gt a[k] Scalar.zero).map fun k =>
      prodCand3 w0 w1 w2 (idx3 k))
    (Tab.nanOf α)
  let b : Tab α (n0 * n1 * n2) := Vector.ofFn fun k => p[k] - a[k] * u
  ⟨b, u, a⟩

/-- unlabelled `Product2` before repair b817f74 (validated by `Opinion::new`, error ≙ panic) -/
def product2UNoClamp {n0 n1} (w0 : Opinion α n0) (w1 : Opinion α n1) : Except Label (Opinion α (n0 * n1)) :=
  let r := product2NoClamp w0 w1
  Opinion.tryNew r.b r.u r.a

def product3UNoClamp {n0 n1 n2} (w0 : Opinion α n0) (w1 : Opinion α n1) (w2 : Opinion α n2) :
    Except Label (Opinion α (n0 * n1 * n2)) :=
  let r := product3NoClamp w0 w1 w2
  Opinion.tryNew r.b r.u r.a

/-- labelled `Product2` before repair b817f74 (`Opinion::normalized`: base rate renormalised, nothing validated) -/
def product2LNoClamp {n0 n1} (w0 : Opinion α n0) (w1 : Opinion α n1) : Opinion α (n0 * n1) :=
  let r := product2NoClamp w0 w1
  ⟨r.b, r.u, normalizeProbDist r.a⟩

def product3LNoClamp {n0 n1 n2} (w0 : Opinion α n0) (w1 : Opinion α n1) (w2 : Opinion α n2) :
    Opinion α (n0 * n1 * n2) :=
  let r := product3NoClamp w0 w1 w2
  ⟨r.b, r.u, normalizeProbDist r.a⟩

/-! `MaxUncertainty::uncertainty_maximized` before repair f029db5: the result `b' = p - a*u'` was returned through
    `Simplex::new_unchecked`; `sum(b') + u' = 1 - u' * (sum(a) - 1)`, so a base rate whose float sum is 1+2eps..1+4eps
    (accepted by the constructors) gives a simplex that `Simplex::try_new` rejects -/
/-- `MaxUncertainty::uncertainty_maximized` before repair f029db5 -/
def uncertaintyMaximizedUnnorm (s : Simplex α n) (a : Tab α n) : Simplex α n :=
  let p := s.projection a
  let um := s.maxUncertainty a
  ⟨Vector.ofFn fun i => p[i] - a[i] * um, um⟩


end SLV.Pinned
