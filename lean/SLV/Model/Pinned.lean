/-
  The operators of the PINNED tree (commit 97e2add) that violate a property and were repaired by
  `fix:` commits in /repo.  Kept verbatim so that the kernel-checked witnesses in
  SLV/Props/Pinned.lean keep documenting what was wrong.  Not used by the driver.
-/
import SLV.Model.Bi
import SLV.Model.Cond
namespace SLV.Pinned
open SLV Scalar BOp

variable {α : Type} [Scalar α]

/-- `BOpinion::mul` (src/bi.rs:163-175); error ≙ panic of `new` -/
def mul (x y : BOp α) : Except Label (BOp α) :=
  let one : α := Scalar.one
  let a := x.a * y.a
  let b := x.b * y.b
    + ((one - x.a) * y.a * x.b * y.u + (one - y.a) * x.a * y.b * x.u) / (one - a)
  let d := x.d + y.d - x.d * y.d
  let u := x.u * y.u
    + ((one - y.a) * x.b * y.u + (one - x.b) * y.b * x.u) / (one - a)
  BOp.tryNew b d u a

/-- `BOpinion::comul` (src/bi.rs:178-189) -/
def comul (x y : BOp α) : Except Label (BOp α) :=
  let one : α := Scalar.one
  let a := x.a + y.a - x.a * y.a
  let b := x.b + y.b - x.b * y.b
  let d := x.d * y.d
    + (x.a * (one - y.a) * x.d * y.u + y.a * (one - x.a) * y.d * x.u) / a
  let u := x.u * y.u + (y.a * x.b * y.u + x.a * y.b * x.u) / a
  BOp.tryNew b d u a

/-- the correction term `k` and the case taken, `BOpinion::deduce` (src/bi.rs:261-342).
    `c0 = (b,d,u)` of y|x, `c1` of y|¬x. -/
def deduceK (w : BOp α) (c0 c1 : α × α × α) (ay : α) : α × DCase :=
  let one : α := Scalar.one
  let b0 := c0.1; let d0 := c0.2.1; let u0 := c0.2.2
  let b1 := c1.1; let d1 := c1.2.1; let u1 := c1.2.2
  let rvax := one - w.a
  let bi := w.b * b0 + w.d * b1 + w.u * (b0 * w.a + b1 * rvax)
  let di := w.b * d0 + w.d * d1 + w.u * (d0 * w.a + d1 * rvax)
  let bp := gt b0 b1
  let dp := gt d0 d1
  if bp == dp then (Scalar.zero, .I)
  else
    let pyx := b0 * w.a + b1 * rvax + ay * (u0 * w.a + u1 * rvax)
    let px := BOp.projection w
    let r := b1 + ay * (one - b1 - d0)
    match gt pyx r, gt px w.a with
    | false, false =>
      if bp then (w.a * w.u * (bi - b1) / (px * ay), .IIA1)
      else (rvax * w.u * (di - d1) * (b1 - b0) / (px * ay * (d0 - d1)), .IIIA1)
    | false, true =>
      if bp then (w.a * w.u * (di - d0) * (b0 - b1) / ((one - px) * ay * (d1 - d0)), .IIA2)
      else (rvax * w.u * (bi - b0) / ((one - px) * ay), .IIIA2)
    | true, false =>
      if bp then (rvax * w.u * (bi - b1) * (d1 - d0) / (px * (one - ay) * (b0 - b1)), .IIB1)
      else (w.a * w.u * (di - d1) / (px * (one - ay)), .IIIB1)
    | true, true =>
      if bp then (rvax * w.u * (di - d0) / ((one - px) * (one - ay)), .IIB2)
      else (w.a * w.u * (bi - b0) * (d0 - d1) / ((one - px) * (one - ay) * (b1 - b0)), .IIIB2)

/-- `BOpinion::deduce` -/
def deduce (w : BOp α) (c0 c1 : α × α × α) (ay : α) : Except Label (BOp α) × DCase :=
  let one : α := Scalar.one
  let b0 := c0.1; let d0 := c0.2.1; let u0 := c0.2.2
  let b1 := c1.1; let d1 := c1.2.1; let u1 := c1.2.2
  let rvax := one - w.a
  let bi := w.b * b0 + w.d * b1 + w.u * (b0 * w.a + b1 * rvax)
  let di := w.b * d0 + w.d * d1 + w.u * (d0 * w.a + d1 * rvax)
  let ui := w.b * u0 + w.d * u1 + w.u * (u0 * w.a + u1 * rvax)
  let kc := deduceK w c0 c1 ay
  let k := kc.1
  (BOp.tryNew (bi - ay * k) (di - (one - ay) * k) (ui + k) ay, kc.2)


end SLV.Pinned
