/-
  Model of src/mul.rs:488-740 : compute_simlex, compute_base_rate, Fuse / FuseAssign overloads.
-/
import SLV.Model.Basic
namespace SLV
open Scalar

inductive FuseOp where
  | acm | ecm | avg | wgh
  deriving DecidableEq, Repr, Inhabited

variable {α : Type} [Scalar α] {n : Nat}

/-- `compute_simlex` (src/mul.rs:488-539) -/
def computeSimplex (op : FuseOp) (l r : Simplex α n) : Simplex α n :=
  if l.isDogmatic && r.isDogmatic then
    Simplex.normalized (Vector.ofFn fun i => (l.b[i] + r.b[i]) / two) Scalar.zero
  else
    match op with
    | .acm | .ecm =>
      if l.isVacuous && r.isVacuous then Simplex.vacuous
      else if l.isVacuous || r.isDogmatic then r
      else if r.isVacuous || l.isDogmatic then l
      else
        let lu := l.u
        let ru := r.u
        let temp := lu + ru - lu * ru
        let b : Tab α n := Vector.ofFn fun i => (l.b[i] * ru + r.b[i] * lu) / temp
        let u := lu * ru / temp
        Simplex.normalized b u
    | .avg =>
      if l.isDogmatic then l
      else if r.isDogmatic then r
      else
        let lu := l.u
        let ru := r.u
        let temp := lu + ru
        let b : Tab α n := Vector.ofFn fun i => (l.b[i] * ru + r.b[i] * lu) / temp
        let u := two * lu * ru / temp
        Simplex.normalized b u
    | .wgh =>
      if l.isVacuous && r.isVacuous then Simplex.vacuous
      else if l.isVacuous || r.isDogmatic then r
      else if r.isVacuous || l.isDogmatic then l
      else
        let lu := l.u
        let ru := r.u
        let lsb := Scalar.one - lu
        let rsb := Scalar.one - ru
        let temp := ru * lsb + lu * rsb
        let b : Tab α n := Vector.ofFn fun i => (l.b[i] * lsb * ru + r.b[i] * rsb * lu) / temp
        let u := (lsb + rsb) * lu * ru / temp
        Simplex.normalized b u

/-- the per-entry shortcut (since repair c8a7116): `if al == ar { al } else { f }` -- an entry is taken over unchanged
    only when both operands carry exactly the same value -/
@[inline] def brEntry (al ar : α) (f : α) : α := if Scalar.eq al ar then al else f

/-- `compute_base_rate` (src/mul.rs:541-618). `same` models `std::ptr::eq(lhs.base_rate, rhs.base_rate)`. -/
def computeBaseRate (op : FuseOp) (same : Bool) (l r : Opinion α n) : Tab α n :=
  if same then l.a
  else if l.isDogmatic && r.isDogmatic then
    Vector.ofFn fun i => (l.a[i] + r.a[i]) / two
  else
    let mean : Tab α n := Vector.ofFn fun i => brEntry l.a[i] r.a[i] ((l.a[i] + r.a[i]) / two)
    match op with
    | .acm | .ecm =>
      if l.isVacuous && r.isVacuous then mean
      else if l.isVacuous || r.isDogmatic then r.a
      else if r.isVacuous || l.isDogmatic then l.a
      else
        let lu := l.u
        let ru := r.u
        let lsb := Scalar.one - lu
        let rsb := Scalar.one - ru
        let temp := ru * lsb + lu * rsb
        Vector.ofFn fun i =>
          brEntry l.a[i] r.a[i] ((l.a[i] * ru * lsb + r.a[i] * lu * rsb) / temp)
    | .avg => mean
    | .wgh =>
      if l.isVacuous && r.isVacuous then mean
      else if l.isVacuous then r.a
      else if r.isVacuous then l.a
      else
        let lu := l.u
        let ru := r.u
        let lsb := Scalar.one - lu
        let rsb := Scalar.one - ru
        let temp := lsb + rsb
        Vector.ofFn fun i =>
          brEntry l.a[i] r.a[i] ((l.a[i] * lsb + r.a[i] * rsb) / temp)

/-- `Fuse<OpinionRef, OpinionRef>` (src/mul.rs:620-638) -/
def fuse (op : FuseOp) (same : Bool) (l r : Opinion α n) : Opinion α n :=
  let s := computeSimplex op l.simplex r.simplex
  let a := computeBaseRate op same l r
  let s := if op = .ecm then s.uncertaintyMaximized a else s
  Opinion.mk' s a

/-- `Fuse<OpinionRef, &Simplex>`: the right operand borrows the left operand's base-rate object -/
def fuseSimplex (op : FuseOp) (l : Opinion α n) (r : Simplex α n) : Opinion α n :=
  fuse op true l (Opinion.mk' r l.a)

/-- `Fuse<&Simplex, &Simplex>`: ECm panics -/
def fuseSS (op : FuseOp) (l r : Simplex α n) : Option (Simplex α n) :=
  if op = .ecm then none else some (computeSimplex op l r)

/-- `fuse_assign` is `*lhs = fuse(lhs, rhs)` for every overload -/
def fuseAssign (op : FuseOp) (same : Bool) (l r : Opinion α n) : Opinion α n := fuse op same l r

end SLV
