/-
  Tables: fixed-size vectors with the folds the Rust code uses.
-/
import SLV.Num.Scalar
namespace SLV
open Scalar

abbrev Tab (α : Type) (n : Nat) := Vector α n

namespace Tab
variable {α : Type} [Scalar α] {n : Nat}

/-- `iter.sum::<V>()` : left fold of `+` starting from `-0.0` -/
def sumIter (v : Tab α n) : α := v.foldl Scalar.add Scalar.sumInit

/-- `let mut s = V::zero(); for .. { s += x }` : left fold starting from `+0.0` -/
def sumLoop (v : Tab α n) : α := v.foldl Scalar.add Scalar.zero

/-- `iter.reduce(f).unwrap()`; the Rust code panics on an empty domain, the model returns `dflt`
    there and every theorem about it assumes `0 < n`. -/
def reduce (f : α → α → α) (v : Tab α n) (dflt : α) : α :=
  if h : 0 < n then (v.toList.tail).foldl f (v[0]'h) else dflt

/-- `iter.reduce(f).unwrap_or(dflt)` over a list (used where the Rust iterator is filtered first) -/
def reduceL (f : α → α → α) (l : List α) (dflt : α) : α :=
  match l with
  | [] => dflt
  | x :: xs => xs.foldl f x

def nanOf (α : Type) [Scalar α] : α := Scalar.div (Scalar.zero : α) Scalar.zero

def reduceMin (v : Tab α n) : α := reduce Scalar.min v (nanOf α)
def reduceMax (v : Tab α n) : α := reduce Scalar.max v (nanOf α)

def all (p : α → Bool) (v : Tab α n) : Bool := v.toList.all p

end Tab
end SLV
