/-
  Model of Product2 / Product3 (src/mul/non_labeled.rs:75-139, src/mul/labeled.rs:74-143)
  and MergeJointConditions2 (src/mul.rs:1013-1061).
  Joint domains are flattened row-major: cell (i,j) of an n0×n1 table is entry i*n1+j.
-/
import SLV.Model.Cond
namespace SLV
open Scalar

variable {α : Type} [Scalar α]

/-- row-major split of a flat index -/
def idx2 {n0 n1 : Nat} (k : Fin (n0 * n1)) : Fin n0 × Fin n1 :=
  have h1 : 0 < n1 := by
    rcases Nat.eq_zero_or_pos n1 with h | h
    · exact absurd k.isLt (by simp [h])
    · exact h
  (⟨k.val / n1, by
      have := k.isLt
      exact (Nat.div_lt_iff_lt_mul h1).mpr this⟩,
   ⟨k.val % n1, Nat.mod_lt _ h1⟩)

def idx3 {n0 n1 n2 : Nat} (k : Fin (n0 * n1 * n2)) : Fin n0 × Fin n1 × Fin n2 :=
  let ij := idx2 (n0 := n0 * n1) (n1 := n2) k
  let i_j := idx2 (n0 := n0) (n1 := n1) ij.1
  (i_j.1, i_j.2, ij.2)

/-- outer product of two tables (`MArr2::product2`, `product2_iter`) -/
def outer2 {n0 n1} (v0 : Tab α n0) (v1 : Tab α n1) : Tab α (n0 * n1) :=
  Vector.ofFn fun k => let d := idx2 k; v0[d.1] * v1[d.2]

def outer3 {n0 n1 n2} (v0 : Tab α n0) (v1 : Tab α n1) (v2 : Tab α n2) : Tab α (n0 * n1 * n2) :=
  Vector.ofFn fun k => let d := idx3 k; v0[d.1] * v1[d.2.1] * v2[d.2.2]

/-- candidate for the joint uncertainty contributed by the cell `d = (i, j)` (src/mul/non_labeled.rs:87-91,
    src/mul/labeled.rs:87-92; both families associate identically): `(P0 i * P1 j - b0 i * b1 j) / (a0 i * a1 j)` with
    `P = b + a*u`, expanded in `r = b / a` so that no nearly equal quantities are subtracted (repair abca806;
    the cancelling form is kept as `Pinned.product2RawCancel`) -/
def prodCand2 {n0 n1} (w0 : Opinion α n0) (w1 : Opinion α n1) (d : Fin n0 × Fin n1) : α :=
  let r0 := w0.b[d.1] / w0.a[d.1]
  let r1 := w1.b[d.2] / w1.a[d.2]
  w0.u * (r1 + w1.u) + r0 * w1.u

/-- three factors (src/mul/non_labeled.rs:119-124, src/mul/labeled.rs:124-130) -/
def prodCand3 {n0 n1 n2} (w0 : Opinion α n0) (w1 : Opinion α n1) (w2 : Opinion α n2)
    (d : Fin n0 × Fin n1 × Fin n2) : α :=
  let r0 := w0.b[d.1] / w0.a[d.1]
  let r1 := w1.b[d.2.1] / w1.a[d.2.1]
  let r2 := w2.b[d.2.2] / w2.a[d.2.2]
  w0.u * (r1 + w1.u) * (r2 + w2.u) + r0 * (w1.u * (r2 + w2.u) + r1 * w2.u)

/-- the part shared by both product implementations: (b, u, a) before validation / normalisation.
    Cells of zero base rate are skipped (`filter(a > 0)`, applied before any quotient `b / a` is used); an empty
    filter makes `reduce(..).unwrap()` panic in Rust, the model returns NaN there (not reachable when the base
    rates are distributions).  Every joint mass `p[d] - a[d] * u` is clamped at zero (repair b817f74: the mass of the
    minimising cell is exactly `b0*b1`, often 0, and its two terms round differently; the un-clamped text is kept as
    `Pinned.product2NoClamp` / `product3NoClamp`). -/
def product2Raw {n0 n1} (w0 : Opinion α n0) (w1 : Opinion α n1) : Opinion α (n0 * n1) :=
  let p := outer2 w0.projection w1.projection
  let a := outer2 w0.a w1.a
  let u := Tab.reduceL Scalar.min
    (((List.finRange (n0 * n1)).filter fun k => Scalar.gt a[k] Scalar.zero).map fun k => prodCand2 w0 w1 (idx2 k))
    (Tab.nanOf α)
  let b : Tab α (n0 * n1) := Vector.ofFn fun k =>
    let b := p[k] - a[k] * u
    if Scalar.lt b Scalar.zero then Scalar.zero else b
  ⟨b, u, a⟩

def product3Raw {n0 n1 n2} (w0 : Opinion α n0) (w1 : Opinion α n1) (w2 : Opinion α n2) :
    Opinion α (n0 * n1 * n2) :=
  let p := outer3 w0.projection w1.projection w2.projection
  let a := outer3 w0.a w1.a w2.a
  let u := Tab.reduceL Scalar.min
    (((List.finRange (n0 * n1 * n2)).filter fun k => Scalar.gt a[k] Scalar.zero).map fun k =>
      prodCand3 w0 w1 w2 (idx3 k))
    (Tab.nanOf α)
  let b : Tab α (n0 * n1 * n2) := Vector.ofFn fun k =>
    let b := p[k] - a[k] * u
    if Scalar.lt b Scalar.zero then Scalar.zero else b
  ⟨b, u, a⟩

/-- unlabelled family: the raw result is validated by `Opinion::new` (error ≙ panic) -/
def product2U {n0 n1} (w0 : Opinion α n0) (w1 : Opinion α n1) : Except Label (Opinion α (n0 * n1)) :=
  let r := product2Raw w0 w1
  Opinion.tryNew r.b r.u r.a

def product3U {n0 n1 n2} (w0 : Opinion α n0) (w1 : Opinion α n1) (w2 : Opinion α n2) :
    Except Label (Opinion α (n0 * n1 * n2)) :=
  let r := product3Raw w0 w1 w2
  Opinion.tryNew r.b r.u r.a

/-- labelled family: `Opinion::normalized` renormalises the base rate, no validation -/
def product2L {n0 n1} (w0 : Opinion α n0) (w1 : Opinion α n1) : Opinion α (n0 * n1) :=
  let r := product2Raw w0 w1
  ⟨r.b, r.u, normalizeProbDist r.a⟩

def product3L {n0 n1 n2} (w0 : Opinion α n0) (w1 : Opinion α n1) (w2 : Opinion α n2) :
    Opinion α (n0 * n1 * n2) :=
  let r := product3Raw w0 w1 w2
  ⟨r.b, r.u, normalizeProbDist r.a⟩

/-- collect a vector of `Except` (first error wins, in index order) -/
def sequenceE {ε β : Type} {k : Nat} (v : Vector (Except ε β) k) : Except ε (Vector β k) :=
  v.mapM id

/-- `MergeJointConditions2::merge_cond2` (src/mul.rs:1049-1060).
    `validate = true` is the unlabelled family (its `product2` validates and may panic). -/
def mergeCond2 {n1 n2 m : Nat} (validate : Bool)
    (yx1 : CondTab α n1 m) (yx2 : CondTab α n2 m)
    (ax1 : Tab α n1) (ax2 : Tab α n2) (ay : Tab α m) :
    Except Label (CondTab α (n1 * n2) m) :=
  let ay1 := (mbr ax1 yx1).getD ay
  let ay2 := (mbr ax2 yx2).getD ay
  let x1y := inverse yx1 ax1 ay1
  let x2y := inverse yx2 ax2 ay2
  let cells : Vector (Except Label (Simplex α (n1 * n2))) m := Vector.ofFn fun y =>
    let w1 : Opinion α n1 := Opinion.mk' x1y[y] ax1
    let w2 : Opinion α n2 := Opinion.mk' x2y[y] ax2
    if validate then
      match product2U w1 w2 with
      | .error e => .error e
      | .ok w => .ok w.simplex
    else .ok (product2L w1 w2).simplex
  match sequenceE cells with
  | .error e => .error e
  | .ok x12y =>
    let ax12 := match mbr ay x12y with
      | some a => a
      | none => outer2 ax1 ax2
    .ok (inverse x12y ay ax12)

end SLV
