/-
  Model of src/bi.rs (binomial opinions) and src/convert.rs.
  Every operator follows the Rust text, including evaluation order.
-/
import SLV.Model.Fuse
namespace SLV
open Scalar

structure BOp (α : Type) where
  b : α
  d : α
  u : α
  a : α
  deriving Repr

variable {α : Type} [Scalar α]

namespace BOp

/-- `bi::check_simplex` -/
def checkSimplex (b d u : α) : Except Label Unit :=
  match checkOne (b + d + u) .bdu with
  | .error e => .error e
  | .ok _ =>
    match checkUnit b .bb with
    | .error e => .error e
    | .ok _ =>
      match checkUnit d .dd with
      | .error e => .error e
      | .ok _ => checkUnit u .u

/-- `BSimplex::try_new` -/
def simplexTryNew (b d u : α) : Except Label (α × α × α) :=
  match checkSimplex b d u with
  | .error e => .error e
  | .ok _ => .ok (b, d, u)

/-- `BOpinion::try_new`: base rate first, then the simplex -/
def tryNew (b d u a : α) : Except Label (BOp α) :=
  match checkUnit a .ba with
  | .error e => .error e
  | .ok _ =>
    match checkSimplex b d u with
    | .error e => .error e
    | .ok _ => .ok ⟨b, d, u, a⟩

def projection (w : BOp α) : α := w.b + w.a * w.u

def neg (w : BOp α) : BOp α := ⟨w.d, w.b, w.u, Scalar.one - w.a⟩

/-- `BOpinion::mul`; error ≙ panic of `new`; the result is renormalised by `s = b + d + u` (repair d46c983) -/
def mul (x y : BOp α) : Except Label (BOp α) :=
  let one : α := Scalar.one
  let a := x.a * y.a
  let na := (one - x.a) + (one - y.a) - (one - x.a) * (one - y.a)
  let b := x.b * y.b
    + ((one - x.a) * y.a * x.b * y.u + (one - y.a) * x.a * y.b * x.u) / na
  let d := x.d + y.d - x.d * y.d
  let u := x.u * y.u
    + ((one - y.a) * x.b * y.u + (one - x.a) * y.b * x.u) / na
  let s := b + d + u
  tryNew (b / s) (d / s) (u / s) a

/-- `BOpinion::comul`; the weights `ax / a`, `ay / a` are formed before multiplying (repair a66cfd4); the result is
    renormalised by `s = b + d + u` (repair d46c983) -/
def comul (x y : BOp α) : Except Label (BOp α) :=
  let one : α := Scalar.one
  let a := x.a + y.a - x.a * y.a
  let b := x.b + y.b - x.b * y.b
  let wx := x.a / a
  let wy := y.a / a
  let d := x.d * y.d
    + (wx * (one - y.a) * x.d * y.u + wy * (one - x.a) * y.d * x.u)
  let u := x.u * y.u + (wy * x.d * y.u + wx * y.d * x.u)
  let s := b + d + u
  tryNew (b / s) (d / s) (u / s) a

/-- `BOpinion::cfuse`; the result is renormalised by `s = b + d + u` (repair df72a91) -/
def cfuse (x y : BOp α) : Except Label (BOp α) :=
  let one : α := Scalar.one
  let uu := x.u * y.u
  let kappa := x.u + y.u - uu
  let b := (x.b * y.u + y.b * x.u) / kappa
  let d := (x.d * y.u + y.d * x.u) / kappa
  let u := (x.u * y.u) / kappa
  let a :=
    if isOne x.u && isOne y.u then (x.a + y.a) / two
    else
      let ca := one - x.u
      let cb := one - y.u
      (x.a * y.u * ca + y.a * x.u * cb) / (y.u * ca + x.u * cb)
  let s := b + d + u
  tryNew (b / s) (d / s) (u / s) a

/-- `BOpinion::afuse`; the result is renormalised by `s = b + d + u` (repair df72a91) -/
def afuse (x y : BOp α) (ga : α) : Except Label (BOp α) :=
  let one : α := Scalar.one
  let zero : α := Scalar.zero
  if isZero x.u && isZero y.u then
    let gb := one - ga
    let b := ga * x.b + gb * y.b
    let d := ga * x.d + gb * y.d
    let u := zero
    let a := ga * x.a + gb * y.a
    let s := b + d + u
    tryNew (b / s) (d / s) (u / s) a
  else
    let upu := x.u + y.u
    let b := (x.b * y.u + y.b * x.u) / upu
    let d := (x.d * y.u + y.d * x.u) / upu
    let u := two * x.u * y.u / upu
    let a := (x.a + y.a) / two
    let s := b + d + u
    tryNew (b / s) (d / s) (u / s) a

/-- `BOpinion::wfuse`; the result is renormalised by `s = b + d + u` (repair df72a91) -/
def wfuse (x y : BOp α) (ga : α) : Except Label (BOp α) :=
  let one : α := Scalar.one
  let zero : α := Scalar.zero
  if isZero x.u && isZero y.u then
    let gb := one - ga
    let b := ga * x.b + gb * y.b
    let d := ga * x.d + gb * y.d
    let u := zero
    let a := ga * x.a + gb * y.a
    let s := b + d + u
    tryNew (b / s) (d / s) (u / s) a
  else if isOne x.u && isOne y.u then
    let b := zero
    let d := zero
    let u := one
    let a := (x.a + y.a) / two
    let s := b + d + u
    tryNew (b / s) (d / s) (u / s) a
  else
    let ca := one - x.u
    let cb := one - y.u
    let denom := ca * y.u + cb * x.u
    let b := (x.b * ca * y.u + y.b * cb * x.u) / denom
    let d := (x.d * ca * y.u + y.d * cb * x.u) / denom
    let u := (ca + cb) * x.u * y.u / denom
    let a := (x.a * ca + y.a * cb) / (ca + cb)
    let s := b + d + u
    tryNew (b / s) (d / s) (u / s) a

/-- branch tags of `deduce` (for coverage accounting).  The current operator (repair b163717) uses `I` and, in Case II /
    Case III, the bound that `ka.min(kb)` returned: `IIA`/`IIIA` = `ka` (belief bound), `IIB`/`IIIB` = `kb` (disbelief
    bound).  `Tie` and the eight numbered tags belong to the earlier operators kept in SLV/Model/Pinned.lean. -/
inductive DCase where
  | I | Tie | IIA1 | IIA2 | IIB1 | IIB2 | IIIA1 | IIIA2 | IIIB1 | IIIB2
  | IIA | IIB | IIIA | IIIB
  deriving DecidableEq, Repr, Inhabited

def DCase.toString : DCase → String
  | .I => "I" | .Tie => "tie" | .IIA1 => "II.A.1" | .IIA2 => "II.A.2" | .IIB1 => "II.B.1" | .IIB2 => "II.B.2"
  | .IIIA1 => "III.A.1" | .IIIA2 => "III.A.2" | .IIIB1 => "III.B.1" | .IIIB2 => "III.B.2"
  | .IIA => "II.A" | .IIB => "II.B" | .IIIA => "III.A" | .IIIB => "III.B"

/-- does Rust's `ka.min(kb)` (≙ `Scalar.min ka kb`) return its right operand `kb`?  (coverage tags only) -/
@[inline] def minTakesRight (ka kb : α) : Bool := isNaN ka || (!isNaN kb && lt kb ka)

/-- the correction term `k` and the case taken, `BOpinion::deduce` (repair b163717): 0 in Case I, otherwise the smaller of
    the belief bound `ka` and the disbelief bound `kb` (`f64::min`: a NaN operand is ignored).
    `c0 = (b,d,u)` of y|x, `c1` of y|¬x. -/
def deduceK (w : BOp α) (c0 c1 : α × α × α) (ay : α) : α × DCase :=
  let one : α := Scalar.one
  let b0 := c0.1; let d0 := c0.2.1
  let b1 := c1.1; let d1 := c1.2.1
  let rvax := one - w.a
  match gt b0 b1, gt d0 d1 with
  -- Case I
  | true, true | false, false => (Scalar.zero, .I)
  -- Case II
  | true, false =>
    let ka := w.a * w.u * (b0 - b1) / ay
    let kb := rvax * w.u * (d1 - d0) / (one - ay)
    (Scalar.min ka kb, if minTakesRight ka kb then .IIB else .IIA)
  -- Case III
  | false, true =>
    let ka := rvax * w.u * (b1 - b0) / ay
    let kb := w.a * w.u * (d0 - d1) / (one - ay)
    (Scalar.min ka kb, if minTakesRight ka kb then .IIIB else .IIIA)

/-- `BOpinion::deduce`; `b` and `d` are clamped at zero (repair cf81fd9); the result is renormalised by
    `s = b + d + u` (repair d46c983) -/
def deduce (w : BOp α) (c0 c1 : α × α × α) (ay : α) : Except Label (BOp α) × DCase :=
  let one : α := Scalar.one
  let b0 := c0.1; let d0 := c0.2.1; let u0 := c0.2.2
  let b1 := c1.1; let d1 := c1.2.1; let u1 := c1.2.2
  let rvax := one - w.a
  let bi := w.b * b0 + w.d * b1 + w.u * (b0 * w.a + b1 * rvax)
  let di := w.b * d0 + w.d * d1 + w.u * (d0 * w.a + d1 * rvax)
  let ui := w.b * u0 + w.d * u1 + w.u * (u0 * w.a + u1 * rvax)
  let kc := deduceK w c0 c1 ay
  let k := kc.1
  let b := bi - ay * k
  let d := di - (one - ay) * k
  -- repair cf81fd9: the rounding residue of an exactly-zero belief / disbelief is clamped (`<` is false for NaN)
  let b := if Scalar.lt b Scalar.zero then Scalar.zero else b
  let d := if Scalar.lt d Scalar.zero then Scalar.zero else d
  let u := ui + k
  let s := b + d + u
  (tryNew (b / s) (d / s) (u / s) ay, kc.2)

/-- `BOpinion::trans_unc` -/
def transUnc (w : BOp α) (t : α) : Except Label (BOp α) :=
  let one : α := Scalar.one
  match checkUnit t .bb with
  | .error e => .error e
  | .ok _ => tryNew (t * w.b) (t * w.d) (one - t + t * w.u) w.a

/-- `BOpinion::trans_opp` -/
def transOpp (w : BOp α) (tb td : α) : Except Label (BOp α) :=
  let one : α := Scalar.one
  let u := one - tb - td
  match checkUnit u .u with
  | .error e => .error e
  | .ok _ => tryNew (tb * w.b + td * w.d) (tb * w.d + td * w.b) (u + (tb + td) * w.u) w.a

/-- `BOpinion::trans_bsr` -/
def transBsr (w : BOp α) (ev : α) : Except Label (BOp α) :=
  let one : α := Scalar.one
  match checkUnit ev .ev with
  | .error e => .error e
  | .ok _ => tryNew (ev * w.b) (ev * w.d) (one - ev * (w.b + w.d)) w.a

/-- `From<BOpinion> for Opinion1d<_,2>` -/
def toOpinion (w : BOp α) : Opinion α 2 :=
  ⟨#v[w.b, w.d], w.u, #v[w.a, Scalar.one - w.a]⟩

/-- `From<Opinion1d<_,2>> for BOpinion` -/
def ofOpinion (w : Opinion α 2) : BOp α := ⟨w.b[0], w.b[1], w.u, w.a[0]⟩

end BOp
end SLV
