/-
  Model of src/bi.rs (binomial opinions) and src/convert.rs.
  Every operator follows the Rust text, including evaluation order.
-/
import SLV.Model.Fuse
namespace SLV
open Scalar

structure BOp (α : Type) where
  b : α
  d : α
  u : α
  a : α
  deriving Repr

variable {α : Type} [Scalar α]

namespace BOp

/-- `bi::check_simplex` -/
def checkSimplex (b d u : α) : Except Label Unit :=
  match checkOne (b + d + u) .bdu with
  | .error e => .error e
  | .ok _ =>
    match checkUnit b .bb with
    | .error e => .error e
    | .ok _ =>
      match checkUnit d .dd with
      | .error e => .error e
      | .ok _ => checkUnit u .u

/-- `BSimplex::try_new` -/
def simplexTryNew (b d u : α) : Except Label (α × α × α) :=
  match checkSimplex b d u with
  | .error e => .error e
  | .ok _ => .ok (b, d, u)

/-- `BOpinion::try_new`: base rate first, then the simplex -/
def tryNew (b d u a : α) : Except Label (BOp α) :=
  match checkUnit a .ba with
  | .error e => .error e
  | .ok _ =>
    match checkSimplex b d u with
    | .error e => .error e
    | .ok _ => .ok ⟨b, d, u, a⟩

def projection (w : BOp α) : α := w.b + w.a * w.u

def neg (w : BOp α) : BOp α := ⟨w.d, w.b, w.u, Scalar.one - w.a⟩

/-- `BOpinion::mul` (src/bi.rs:163-175); error ≙ panic of `new` -/
def mul (x y : BOp α) : Except Label (BOp α) :=
  let one : α := Scalar.one
  let a := x.a * y.a
  let na := (one - x.a) + (one - y.a) - (one - x.a) * (one - y.a)
  let b := x.b * y.b
    + ((one - x.a) * y.a * x.b * y.u + (one - y.a) * x.a * y.b * x.u) / na
  let d := x.d + y.d - x.d * y.d
  let u := x.u * y.u
    + ((one - y.a) * x.b * y.u + (one - x.a) * y.b * x.u) / na
  tryNew b d u a

/-- `BOpinion::comul` (src/bi.rs:178-189) -/
def comul (x y : BOp α) : Except Label (BOp α) :=
  let one : α := Scalar.one
  let a := x.a + y.a - x.a * y.a
  let b := x.b + y.b - x.b * y.b
  let d := x.d * y.d
    + (x.a * (one - y.a) * x.d * y.u + y.a * (one - x.a) * y.d * x.u) / a
  let u := x.u * y.u + (y.a * x.d * y.u + x.a * y.d * x.u) / a
  tryNew b d u a

/-- `BOpinion::cfuse` (src/bi.rs:192-206) -/
def cfuse (x y : BOp α) : Except Label (BOp α) :=
  let one : α := Scalar.one
  let uu := x.u * y.u
  let kappa := x.u + y.u - uu
  let b := (x.b * y.u + y.b * x.u) / kappa
  let d := (x.d * y.u + y.d * x.u) / kappa
  let u := (x.u * y.u) / kappa
  let a :=
    if isOne x.u && isOne y.u then (x.a + y.a) / two
    else
      let ca := one - x.u
      let cb := one - y.u
      (x.a * y.u * ca + y.a * x.u * cb) / (y.u * ca + x.u * cb)
  tryNew b d u a

/-- `BOpinion::afuse` (src/bi.rs:209-228) -/
def afuse (x y : BOp α) (ga : α) : Except Label (BOp α) :=
  let one : α := Scalar.one
  let zero : α := Scalar.zero
  if isZero x.u && isZero y.u then
    let gb := one - ga
    tryNew (ga * x.b + gb * y.b) (ga * x.d + gb * y.d) zero (ga * x.a + gb * y.a)
  else
    let upu := x.u + y.u
    tryNew ((x.b * y.u + y.b * x.u) / upu) ((x.d * y.u + y.d * x.u) / upu)
      (two * x.u * y.u / upu) ((x.a + y.a) / two)

/-- `BOpinion::wfuse` (src/bi.rs:231-257) -/
def wfuse (x y : BOp α) (ga : α) : Except Label (BOp α) :=
  let one : α := Scalar.one
  let zero : α := Scalar.zero
  if isZero x.u && isZero y.u then
    let gb := one - ga
    tryNew (ga * x.b + gb * y.b) (ga * x.d + gb * y.d) zero (ga * x.a + gb * y.a)
  else if isOne x.u && isOne y.u then
    tryNew zero zero one ((x.a + y.a) / two)
  else
    let ca := one - x.u
    let cb := one - y.u
    let denom := ca * y.u + cb * x.u
    let b := (x.b * ca * y.u + y.b * cb * x.u) / denom
    let d := (x.d * ca * y.u + y.d * cb * x.u) / denom
    let u := (ca + cb) * x.u * y.u / denom
    let a := (x.a * ca + y.a * cb) / (ca + cb)
    tryNew b d u a

/-- branch tags of `deduce` (for coverage accounting) -/
inductive DCase where
  | I | Tie | IIA1 | IIA2 | IIB1 | IIB2 | IIIA1 | IIIA2 | IIIB1 | IIIB2
  deriving DecidableEq, Repr, Inhabited

def DCase.toString : DCase → String
  | .I => "I" | .Tie => "tie" | .IIA1 => "II.A.1" | .IIA2 => "II.A.2" | .IIB1 => "II.B.1" | .IIB2 => "II.B.2"
  | .IIIA1 => "III.A.1" | .IIIA2 => "III.A.2" | .IIIB1 => "III.B.1" | .IIIB2 => "III.B.2"

/-- the correction term `k` and the case taken, `BOpinion::deduce` (src/bi.rs:261-342).
    `c0 = (b,d,u)` of y|x, `c1` of y|¬x. -/
def deduceK (w : BOp α) (c0 c1 : α × α × α) (ay : α) : α × DCase :=
  let one : α := Scalar.one
  let b0 := c0.1; let d0 := c0.2.1; let u0 := c0.2.2
  let b1 := c1.1; let d1 := c1.2.1; let u1 := c1.2.2
  let rvax := one - w.a
  let bi := w.b * b0 + w.d * b1 + w.u * (b0 * w.a + b1 * rvax)
  let di := w.b * d0 + w.d * d1 + w.u * (d0 * w.a + d1 * rvax)
  let bp := gt b0 b1
  let dp := gt d0 d1
  if bp == dp then (Scalar.zero, .I)
  -- a tie in belief or in disbelief (repair 4d5bbb1): decided before the sub-case comparison
  else if Scalar.eq b0 b1 || Scalar.eq d0 d1 then (Scalar.zero, .Tie)
  else
    let pyx := b0 * w.a + b1 * rvax + ay * (u0 * w.a + u1 * rvax)
    let px := w.projection
    let r := if bp then b1 + ay * (one - b1 - d0) else b0 + ay * (one - b0 - d1)
    match gt pyx r, gt px w.a with
    | false, false =>
      if bp then (w.a * w.u * (bi - b1) / (px * ay), .IIA1)
      else (rvax * w.u * (di - d1) * (b1 - b0) / (px * ay * (d0 - d1)), .IIIA1)
    | false, true =>
      if bp then (w.a * w.u * (di - d0) * (b0 - b1) / ((one - px) * ay * (d1 - d0)), .IIA2)
      else (rvax * w.u * (bi - b0) / ((one - px) * ay), .IIIA2)
    | true, false =>
      if bp then (rvax * w.u * (bi - b1) * (d1 - d0) / (px * (one - ay) * (b0 - b1)), .IIB1)
      else (w.a * w.u * (di - d1) / (px * (one - ay)), .IIIB1)
    | true, true =>
      if bp then (rvax * w.u * (di - d0) / ((one - px) * (one - ay)), .IIB2)
      else (w.a * w.u * (bi - b0) * (d0 - d1) / ((one - px) * (one - ay) * (b1 - b0)), .IIIB2)

/-- `BOpinion::deduce` -/
def deduce (w : BOp α) (c0 c1 : α × α × α) (ay : α) : Except Label (BOp α) × DCase :=
  let one : α := Scalar.one
  let b0 := c0.1; let d0 := c0.2.1; let u0 := c0.2.2
  let b1 := c1.1; let d1 := c1.2.1; let u1 := c1.2.2
  let rvax := one - w.a
  let bi := w.b * b0 + w.d * b1 + w.u * (b0 * w.a + b1 * rvax)
  let di := w.b * d0 + w.d * d1 + w.u * (d0 * w.a + d1 * rvax)
  let ui := w.b * u0 + w.d * u1 + w.u * (u0 * w.a + u1 * rvax)
  let kc := deduceK w c0 c1 ay
  let k := kc.1
  (tryNew (bi - ay * k) (di - (one - ay) * k) (ui + k) ay, kc.2)

/-- `BOpinion::trans_unc` -/
def transUnc (w : BOp α) (t : α) : Except Label (BOp α) :=
  let one : α := Scalar.one
  match checkUnit t .bb with
  | .error e => .error e
  | .ok _ => tryNew (t * w.b) (t * w.d) (one - t + t * w.u) w.a

/-- `BOpinion::trans_opp` -/
def transOpp (w : BOp α) (tb td : α) : Except Label (BOp α) :=
  let one : α := Scalar.one
  let u := one - tb - td
  match checkUnit u .u with
  | .error e => .error e
  | .ok _ => tryNew (tb * w.b + td * w.d) (tb * w.d + td * w.b) (u + (tb + td) * w.u) w.a

/-- `BOpinion::trans_bsr` -/
def transBsr (w : BOp α) (ev : α) : Except Label (BOp α) :=
  let one : α := Scalar.one
  match checkUnit ev .ev with
  | .error e => .error e
  | .ok _ => tryNew (ev * w.b) (ev * w.d) (one - ev * (w.b + w.d)) w.a

/-- `From<BOpinion> for Opinion1d<_,2>` -/
def toOpinion (w : BOp α) : Opinion α 2 :=
  ⟨#v[w.b, w.d], w.u, #v[w.a, Scalar.one - w.a]⟩

/-- `From<Opinion1d<_,2>> for BOpinion` -/
def ofOpinion (w : Opinion α 2) : BOp α := ⟨w.b[0], w.b[1], w.u, w.a[0]⟩

end BOp
end SLV
