/-
  Model of src/mul.rs (part 1): simplexes, opinions, checked constructors,
  projection, uncertainty maximisation, trust discounting.
  Written once over `Scalar α`; every definition follows the Rust text operation by operation.
-/
import SLV.Model.Tab
namespace SLV
open Scalar

structure Simplex (α : Type) (n : Nat) where
  b : Tab α n
  u : α
  deriving Repr

structure Opinion (α : Type) (n : Nat) where
  b : Tab α n
  u : α
  a : Tab α n
  deriving Repr

namespace Opinion
def simplex {α n} (w : Opinion α n) : Simplex α n := ⟨w.b, w.u⟩
def mk' {α n} (s : Simplex α n) (a : Tab α n) : Opinion α n := ⟨s.b, s.u, a⟩
end Opinion

/-- error labels of `InvalidValueError` (index of the rejected entry dropped) -/
inductive Label where
  | b | u | sumBU | a | sumA | bdu | bb | dd | ba | ev
  deriving DecidableEq, Repr, Inhabited

def Label.toString : Label → String
  | .b => "b[]" | .u => "u" | .sumBU => "sum(b)+u" | .a => "a[]" | .sumA => "sum(a)"
  | .bdu => "b+d+u" | .bb => "b" | .dd => "d" | .ba => "a" | .ev => "ev"

variable {α : Type} [Scalar α] {n : Nat}

/-- `errors::check_unit_interval` -/
def checkUnit (v : α) (l : Label) : Except Label Unit :=
  if inUnit v then .ok () else .error l

/-- `errors::check_is_one` -/
def checkOne (v : α) (l : Label) : Except Label Unit :=
  if isOne v then .ok () else .error l

/-- the accumulate-and-check loop shared by `check_simplex` / `check_base_rate` (src/mul.rs:453-486):
    returns the running sum (from +0.0) or the first range error. -/
def checkEntries (l : Label) (xs : List α) (acc : α) : Except Label α :=
  match xs with
  | [] => .ok acc
  | x :: xs => if inUnit x then checkEntries l xs (Scalar.add acc x) else .error l

/-- `mul::check_simplex` -/
def checkSimplex (b : Tab α n) (u : α) : Except Label Unit :=
  match checkEntries .b b.toList Scalar.zero with
  | .error e => .error e
  | .ok s =>
    match checkUnit u .u with
    | .error e => .error e
    | .ok _ => checkOne (Scalar.add s u) .sumBU

/-- `mul::check_base_rate` -/
def checkBaseRate (a : Tab α n) : Except Label Unit :=
  match checkEntries .a a.toList Scalar.zero with
  | .error e => .error e
  | .ok s => checkOne s .sumA

/-- `Simplex::try_new` -/
def Simplex.tryNew (b : Tab α n) (u : α) : Except Label (Simplex α n) :=
  match checkSimplex b u with
  | .error e => .error e
  | .ok _ => .ok ⟨b, u⟩

/-- `Opinion::try_new` -/
def Opinion.tryNew (b : Tab α n) (u : α) (a : Tab α n) : Except Label (Opinion α n) :=
  match checkSimplex b u with
  | .error e => .error e
  | .ok _ =>
    match checkBaseRate a with
    | .error e => .error e
    | .ok _ => .ok ⟨b, u, a⟩

/-- `Simplex1d::into_opinion` -/
def Simplex.intoOpinion (s : Simplex α n) (a : Tab α n) : Except Label (Opinion α n) :=
  match checkBaseRate a with
  | .error e => .error e
  | .ok _ => .ok ⟨s.b, s.u, a⟩

def Simplex.isVacuous (s : Simplex α n) : Bool := isOne s.u
def Simplex.isDogmatic (s : Simplex α n) : Bool := isZero s.u
def Opinion.isVacuous (w : Opinion α n) : Bool := isOne w.u
def Opinion.isDogmatic (w : Opinion α n) : Bool := isZero w.u

def Simplex.vacuous : Simplex α n := ⟨Vector.replicate n Scalar.zero, Scalar.one⟩

/-- `mul::normalize_prob_dist` -/
def normalizeProbDist (p : Tab α n) : Tab α n :=
  let s := Tab.sumLoop p
  p.map (fun x => x / s)

/-- `Simplex::normalized` -/
def Simplex.normalized (b : Tab α n) (u : α) : Simplex α n :=
  let s := Tab.sumIter b + u
  ⟨b.map (fun x => x / s), u / s⟩

/-- `Projection for OpinionRef` -/
def projection (b : Tab α n) (u : α) (a : Tab α n) : Tab α n :=
  normalizeProbDist (Vector.ofFn fun i => b[i] + a[i] * u)

def Opinion.projection (w : Opinion α n) : Tab α n := SLV.projection w.b w.u w.a
def Simplex.projection (s : Simplex α n) (a : Tab α n) : Tab α n := SLV.projection s.b s.u a

/-- one step of the loop in `max_uncertainty` -/
def maxUStep (p a : α) : α :=
  if isZero p && isZero a then Scalar.one
  else if isZero a then Scalar.one
  else p / a

/-- `MaxUncertainty::max_uncertainty` -/
def Simplex.maxUncertainty (s : Simplex α n) (a : Tab α n) : α :=
  let p := s.projection a
  (List.finRange n).foldl (fun u i => Scalar.min u (maxUStep p[i] a[i])) Scalar.one

/-- `MaxUncertainty::uncertainty_maximized` -/
def Simplex.uncertaintyMaximized (s : Simplex α n) (a : Tab α n) : Simplex α n :=
  let p := s.projection a
  let um := s.maxUncertainty a
  let bmax : Tab α n := Vector.ofFn fun i =>
    let b := p[i] - a[i] * um
    if Scalar.lt b Scalar.zero then Scalar.zero else b
  Simplex.normalized bmax um

/-- `Discount for Simplex` -/
def Simplex.discount (s : Simplex α n) (t : α) : Simplex α n :=
  if s.isVacuous then Simplex.vacuous
  else ⟨s.b.map (fun b => b * t), Scalar.one - t * (Scalar.one - s.u)⟩

/-- `Discount for Opinion / OpinionRef` -/
def Opinion.discount (w : Opinion α n) (t : α) : Opinion α n :=
  Opinion.mk' (w.simplex.discount t) w.a

end SLV
