/-
  Model of the multi-array part of the Rust crate (/repo/src/multi_array/{non_labeled,labeled}.rs,
  /repo/src/domain.rs, /repo/src/iter.rs).  Core Lean only (linked into the native driver `slvarr`).

  Conventions
  * a Rust panic is `none` (or `Out.panic`); a call that the Rust type checker would refuse is `Out.na`.
  * the cell type is generic `V`; the interpreter instantiates `V := Nat` (u64 in the harness, arithmetic mod 2^64).
  * unlabelled arrays are the nested `Vec`s of the tuple structs: `MArr1 = List V`, `MArr2 = List MArr1`, ...
    (the const parameters K0,K1,K2 are passed as explicit `Nat` arguments to the constructors that use them);
    labelled arrays are structures with the same field nesting as in Rust, the domain lengths `D::LEN` are
    explicit `Nat` arguments.
  * iterators are explicit state machines: `next : σ → Option α × σ`.
-/
namespace SLV.MArr

/-! ## Generic iterator plumbing -/

/-- call `next` until it returns `none` (as a Rust `for` loop / `collect` does) or the fuel runs out;
    returns the items and the state after the first `none`. -/
def drain {σ α : Type} (next : σ → Option α × σ) : Nat → σ → List α × σ
  | 0, s => ([], s)
  | fuel + 1, s =>
    match next s with
    | (none, s') => ([], s')
    | (some a, s') => let r := drain next fuel s'; (a :: r.1, r.2)

/-- `n` successive `next()` calls, all results reported -/
def nextN {σ α : Type} (next : σ → Option α × σ) : Nat → σ → List (Option α) × σ
  | 0, s => ([], s)
  | n + 1, s => let r := next s; let q := nextN next n r.2; (r.1 :: q.1, q.2)

/-- an enumeration that is RESUMED: `k` calls of `next()` (all results reported), then the remainder as a consumer
    that stops at the first `None` sees it (`collect`, `for_each`, `fold`, `count`, `last`, ... of the advanced
    iterator all consume this remainder) -/
def resumeRun {σ α : Type} (next : σ → Option α × σ) (k fuel : Nat) (s : σ) : List (Option α) × List α :=
  let a := nextN next k s
  (a.1, (drain next fuel a.2).1)

/-! ### answers of the provided `Iterator` methods on a remaining sequence `l` (std semantics):
    `count` = `l.length`, `last` = `l.getLast?`, `nth(j)` = `l[j]?` (and the iterator continues at `l.drop (j+1)`),
    `skip(1).next()` = `l[1]?`, `position(p)` = `l.findIdx? p`, `all(|_| true)` = true leaving nothing -/

/-- `step_by(2)`: every second element starting with the first -/
def stepBy2 {α : Type} : List α → List α
  | [] => []
  | [a] => [a]
  | a :: _ :: t => a :: stepBy2 t

/-- `Iterator::min` on index tuples (lexicographic `Ord` of arrays / tuples; the first minimum wins) -/
def minLex (l : List (List Nat)) : Option (List Nat) :=
  l.foldl (fun acc x => match acc with
    | none => some x
    | some a => if x < a then some x else some a) none

/-- `Iterator::max` (the last maximum wins) -/
def maxLex (l : List (List Nat)) : Option (List Nat) :=
  l.foldl (fun acc x => match acc with
    | none => some x
    | some a => if x < a then some a else some x) none

/-- `std::slice::Iter<V>`: the remaining elements -/
abbrev SliceIter (V : Type) := List V

def SliceIter.next {V : Type} : SliceIter V → Option V × SliceIter V
  | [] => (none, [])
  | x :: xs => (some x, xs)

/-! ## `MultiRange<N>` (non_labeled.rs lines 14-56) -/

structure MultiRange where
  k : Option (List Nat)
  size : List Nat
deriving Repr, BEq, DecidableEq

/-- `MultiRange::new`: `Some([0; N])` iff all sizes are positive (`all` over an empty array is true) -/
def MultiRange.new (size : List Nat) : MultiRange :=
  { k := if size.all (fun s => decide (0 < s)) then some (List.replicate size.length 0) else none,
    size := size }

/-- the body of `for i in (0..N).rev()` with `i+1` indices still to visit (`i, i-1, .., 0`);
    `k` is the local copy, `sk` is `self.k` (which `take()` has set to `None` before the loop).
    Branch 1 assigns `self.k = Some(k)` and breaks; branch 2 (`i > 0`) resets the digit and goes on;
    branch 3 (`i = 0`) sets `self.k = None` (and the loop ends because `i = 0` was the last index). -/
def MultiRange.loop (size : List Nat) : Nat → List Nat → Option (List Nat) → Option (List Nat)
  | 0, _, sk => sk
  | i + 1, k, sk =>
    if k.getD i 0 + 1 < size.getD i 0 then some (k.set i (k.getD i 0 + 1))
    else if 0 < i then MultiRange.loop size i (k.set i 0) sk
    else MultiRange.loop size i k none

/-- `Iterator::next` -/
def MultiRange.next (r : MultiRange) : Option (List Nat) × MultiRange :=
  match r.k with
  | none => (none, { r with k := none })
  | some k => (some k, { r with k := MultiRange.loop r.size r.size.length k none })

/-- all indexes, as a consumer that stops at the first `None` sees them -/
def MultiRange.toList (size : List Nat) : List (List Nat) :=
  (drain MultiRange.next (size.foldl (· * ·) 1 + 1) (MultiRange.new size)).1

/-- `indexes()` advanced by `k` calls of `next()`: their results and what a draining consumer then sees -/
def MultiRange.resume (size : List Nat) (k : Nat) : List (Option (List Nat)) × List (List Nat) :=
  resumeRun MultiRange.next k (size.foldl (· * ·) 1 + 1) (MultiRange.new size)

/-- specification: lexicographic list of `[0,n0) x ... x [0,nk)`, last coordinate fastest -/
def lexList : List Nat → List (List Nat)
  | [] => [[]]
  | s :: ss => (List.range s).flatMap fun i => (lexList ss).map (i :: ·)

/-! ## Domains and keys (domain.rs) -/

/-- `Keys for D`: `(0..D::LEN).map(|i| i.into())`; an index is modelled by its `usize` value -/
def keys (len : Nat) : List Nat := List.range len

/-- newtype index `struct S(pub usize)` of `new_type_domain!` -/
structure NewIdx where
  val : Nat
deriving Repr, BEq, DecidableEq

def NewIdx.ofUsize (n : Nat) : NewIdx := ⟨n⟩       -- `From<usize> for S`
def NewIdx.toUsize (i : NewIdx) : Nat := i.val      -- `From<S> for usize`
/-- sibling conversion `From<F> for S` generated by `new_type_domain!(S from F)`: `S(value.0)` -/
def NewIdx.sib (i : NewIdx) : NewIdx := ⟨i.val⟩

/-- `itertools::iproduct!(a, b)`: first iterator outermost -/
def iproduct2 {α β : Type} (a : List α) (b : List β) : List (α × β) :=
  a.flatMap fun x => b.map fun y => (x, y)

/-- `itertools::iproduct!(a, b, c)` -/
def iproduct3 {α β γ : Type} (a : List α) (b : List β) (c : List γ) : List (α × β × γ) :=
  a.flatMap fun x => b.flatMap fun y => c.map fun z => (x, y, z)

def keysD2 (d0 d1 : Nat) : List (Nat × Nat) := iproduct2 (keys d0) (keys d1)
def keysD3 (d0 d1 d2 : Nat) : List (Nat × Nat × Nat) := iproduct3 (keys d0) (keys d1) (keys d2)

/-! ## The flattening adaptors `Iter` / `IterMut` (same code in both files) -/

/-- `iters`: the remaining rows (`std::slice::Iter<S>`), `iter`: the current row's iterator -/
structure Iter (S I : Type) where
  iters : List S
  iter : Option I

/-- `Iter::new`: `let iter = iters.next().map(|t| t.into_iter())` -/
def Iter.new {S I : Type} (into : S → I) : List S → Iter S I
  | [] => { iters := [], iter := none }
  | r :: rs => { iters := rs, iter := some (into r) }

/-- `Iterator::next` exactly as written.  Note the subtle branch: when the current row is exhausted the NEXT row
    is taken and its first `next()` is returned as is, even if it is `None` while later rows are non-empty. -/
def Iter.next {S I V : Type} (into : S → I) (nx : I → Option V × I) (it : Iter S I) : Option V × Iter S I :=
  match it.iter with                                   -- self.iter.take()
  | none => (none, { iters := it.iters, iter := none })
  | some i =>
    match nx i with
    | (some t, i') => (some t, { iters := it.iters, iter := some i' })
    | (none, _) =>
      match it.iters with                              -- self.iter = self.iters.next().map(into_iter)
      | [] => (none, { iters := [], iter := none })    -- `?` on None
      | r :: rs => let q := nx (into r); (q.1, { iters := rs, iter := some q.2 })

/-! ## Unlabelled arrays -/

abbrev MArr1 (V : Type) := List V
abbrev MArr2 (V : Type) := List (MArr1 V)
abbrev MArr3 (V : Type) := List (MArr2 V)

/-- `n` times `push(iter.next().unwrap())` -/
def takeUnwrap {V : Type} : Nat → List V → Option (List V × List V)
  | 0, it => some ([], it)
  | _ + 1, [] => none
  | n + 1, x :: xs => (takeUnwrap n xs).map fun r => (x :: r.1, r.2)

/-- `for _ in 0..n { out.push(body(&mut iter)) }` where the body may panic -/
def repeatM {V A : Type} (body : List V → Option (A × List V)) : Nat → List V → Option (List A × List V)
  | 0, it => some ([], it)
  | n + 1, it =>
    match body it with
    | none => none
    | some (a, it') => (repeatM body n it').map fun r => (a :: r.1, r.2)

/-- `MArr1::from_iter`: `Self(Vec::from_iter(iter))` — the length is NOT checked against K0 -/
def MArr1.fromIter {V : Type} (it : List V) : MArr1 V := it
def MArr2.fromIter {V : Type} (k0 k1 : Nat) (it : List V) : Option (MArr2 V) :=
  (repeatM (takeUnwrap k1) k0 it).map (·.1)
def MArr3.fromIter {V : Type} (k0 k1 k2 : Nat) (it : List V) : Option (MArr3 V) :=
  (repeatM (repeatM (takeUnwrap k2) k1) k0 it).map (·.1)

/-- `from_fn`: `Self::from_iter(Self::indexes().map(f))` -/
def MArr1.fromFn {V : Type} (k0 : Nat) (f : List Nat → V) : MArr1 V :=
  MArr1.fromIter ((MultiRange.toList [k0]).map f)
def MArr2.fromFn {V : Type} (k0 k1 : Nat) (f : List Nat → V) : Option (MArr2 V) :=
  MArr2.fromIter k0 k1 ((MultiRange.toList [k0, k1]).map f)
def MArr3.fromFn {V : Type} (k0 k1 k2 : Nat) (f : List Nat → V) : Option (MArr3 V) :=
  MArr3.fromIter k0 k1 k2 ((MultiRange.toList [k0, k1, k2]).map f)

/-- `zeros` / `default`: `new(array::from_fn(|_| ..))` -/
def MArr1.zeros {V : Type} (z : V) (k0 : Nat) : MArr1 V := List.replicate k0 z
def MArr2.zeros {V : Type} (z : V) (k0 k1 : Nat) : MArr2 V := List.replicate k0 (MArr1.zeros z k1)
def MArr3.zeros {V : Type} (z : V) (k0 k1 k2 : Nat) : MArr3 V := List.replicate k0 (MArr2.zeros z k1 k2)

/-- `index`: `&self.0[k0]`, `&self.0[k0][k]` (Vec indexing panics out of bounds) -/
def MArr1.index {V : Type} (a : MArr1 V) (k0 : Nat) : Option V := a[k0]?
def MArr2.index {V : Type} (a : MArr2 V) (k0 k1 : Nat) : Option V :=
  match a[k0]? with | none => none | some r => MArr1.index r k1
def MArr3.index {V : Type} (a : MArr3 V) (k0 k1 k2 : Nat) : Option V :=
  match a[k0]? with | none => none | some r => MArr2.index r k1 k2

/-- `*index_mut(k) = v` -/
def MArr1.indexMut {V : Type} (a : MArr1 V) (k0 : Nat) (v : V) : Option (MArr1 V) :=
  if k0 < a.length then some (a.set k0 v) else none
def MArr2.indexMut {V : Type} (a : MArr2 V) (k0 k1 : Nat) (v : V) : Option (MArr2 V) :=
  match a[k0]? with | none => none | some r => (MArr1.indexMut r k1 v).map (a.set k0 ·)
def MArr3.indexMut {V : Type} (a : MArr3 V) (k0 k1 k2 : Nat) (v : V) : Option (MArr3 V) :=
  match a[k0]? with | none => none | some r => (MArr2.indexMut r k1 k2 v).map (a.set k0 ·)

/-- `(&a).into_iter()` -/
abbrev MArr2.It (V : Type) := Iter (MArr1 V) (SliceIter V)
abbrev MArr3.It (V : Type) := Iter (MArr2 V) (MArr2.It V)

def MArr1.iter {V : Type} (a : MArr1 V) : SliceIter V := a
def MArr2.iter {V : Type} (a : MArr2 V) : MArr2.It V := Iter.new MArr1.iter a
def MArr2.itNext {V : Type} : MArr2.It V → Option V × MArr2.It V := Iter.next MArr1.iter SliceIter.next
def MArr3.iter {V : Type} (a : MArr3 V) : MArr3.It V := Iter.new MArr2.iter a
def MArr3.itNext {V : Type} : MArr3.It V → Option V × MArr3.It V := Iter.next MArr2.iter MArr2.itNext

/-- `TryFrom<[T; K0]>`: `value.into_iter().map(U::try_from).collect::<Result<_, _>>()?` — first error wins -/
def tryCells {T U E : Type} (cv : T → Except E U) : List T → Except E (List U)
  | [] => .ok []
  | x :: xs =>
    match cv x with
    | .error e => .error e
    | .ok u => match tryCells cv xs with
      | .error e => .error e
      | .ok us => .ok (u :: us)

def MArr1.tryFrom {T U E : Type} (cv : T → Except E U) (v : List T) : Except E (MArr1 U) := tryCells cv v
def MArr2.tryFrom {T U E : Type} (cv : T → Except E U) (v : List (List T)) : Except E (MArr2 U) :=
  tryCells (MArr1.tryFrom cv) v
def MArr3.tryFrom {T U E : Type} (cv : T → Except E U) (v : List (List (List T))) : Except E (MArr3 U) :=
  tryCells (MArr2.tryFrom cv) v

/-- `product2`: `Self::from_fn(|d| w0[d[0]] * w1[d[1]])`, K0 = |w0|, K1 = |w1| by typing -/
def MArr2.product2 {V : Type} (mul : V → V → V) (z : V) (w0 w1 : List V) : Option (MArr2 V) :=
  MArr2.fromFn w0.length w1.length fun d => mul (w0.getD (d.getD 0 0) z) (w1.getD (d.getD 1 0) z)
def MArr3.product3 {V : Type} (mul : V → V → V) (z : V) (w0 w1 w2 : List V) : Option (MArr3 V) :=
  MArr3.fromFn w0.length w1.length w2.length fun d =>
    mul (mul (w0.getD (d.getD 0 0) z) (w1.getD (d.getD 1 0) z)) (w2.getD (d.getD 2 0) z)

/-! ## Labelled arrays -/

structure MArrD1 (V : Type) where
  inner : List V
deriving Repr

structure MArrD2 (V : Type) where
  inner : MArrD1 (MArrD1 V)

structure MArrD3 (V : Type) where
  inner : MArrD1 (MArrD2 V)

/-- `PartialEq`: `self.inner == other.inner` at every level -/
instance {V : Type} [BEq V] : BEq (MArrD1 V) := ⟨fun a b => a.inner == b.inner⟩
instance {V : Type} [BEq V] : BEq (MArrD2 V) := ⟨fun a b => a.inner == b.inner⟩
instance {V : Type} [BEq V] : BEq (MArrD3 V) := ⟨fun a b => a.inner == b.inner⟩

/-- `MArrD1::new`: `assert!(inner.len() == D0::LEN)` -/
def MArrD1.new {V : Type} (len : Nat) (inner : List V) : Option (MArrD1 V) :=
  if inner.length = len then some ⟨inner⟩ else none
def MArrD2.new {V : Type} (d0 : Nat) (arr : List (MArrD1 V)) : Option (MArrD2 V) :=
  (MArrD1.new d0 arr).map (⟨·⟩)
def MArrD3.new {V : Type} (d0 : Nat) (arr : List (MArrD2 V)) : Option (MArrD3 V) :=
  (MArrD1.new d0 arr).map (⟨·⟩)

/-- `MArrD1::from_iter`: `Self::new(Vec::from_iter(iter))` -/
def MArrD1.fromIter {V : Type} (d0 : Nat) (it : List V) : Option (MArrD1 V) := MArrD1.new d0 it

/-- `v.drain(0..n)`: panics if `n > v.len()`; gives the drained prefix and what is left in `v` -/
def vecDrain {V : Type} (n : Nat) (v : List V) : Option (List V × List V) :=
  if n ≤ v.length then some (v.take n, v.drop n) else none

/-- one row: `MArrD1::<D1, _>::from_iter(v.drain(0..D1::LEN))` -/
def drainRow {V : Type} (d : Nat) (v : List V) : Option (MArrD1 V × List V) :=
  match vecDrain d v with
  | none => none
  | some (row, rest) => (MArrD1.fromIter d row).map fun r => (r, rest)

/-- `MArrD2::from_iter`: collect everything, drain `D1::LEN` per row, `Self::new(inner)` -/
def MArrD2.fromIter {V : Type} (d0 d1 : Nat) (it : List V) : Option (MArrD2 V) :=
  match repeatM (drainRow d1) d0 it with
  | none => none
  | some (rows, _) => MArrD2.new d0 rows

def drainPlane {V : Type} (d1 d2 : Nat) (v : List V) : Option (MArrD2 V × List V) :=
  match repeatM (drainRow d2) d1 v with
  | none => none
  | some (rows, rest) => (MArrD2.new d1 rows).map fun p => (p, rest)

def MArrD3.fromIter {V : Type} (d0 d1 d2 : Nat) (it : List V) : Option (MArrD3 V) :=
  match repeatM (drainPlane d1 d2) d0 it with
  | none => none
  | some (planes, _) => MArrD3.new d0 planes

/-- sequential `map` whose function may panic (`from_iter` of a mapped iterator) -/
def mapPanic {A B : Type} (f : A → Option B) : List A → Option (List B)
  | [] => some []
  | x :: xs => match f x with
    | none => none
    | some b => (mapPanic f xs).map (b :: ·)

/-- `from_multi_iter`: `MArrD1::from_iter(iter.into_iter().map(|vs| MArrD1::from_iter(vs)))` -/
def MArrD2.fromMultiIter {V : Type} (d0 d1 : Nat) (it : List (List V)) : Option (MArrD2 V) :=
  match mapPanic (MArrD1.fromIter d1) it with
  | none => none
  | some rows => (MArrD1.fromIter d0 rows).map (⟨·⟩)
def MArrD3.fromMultiIter {V : Type} (d0 d1 d2 : Nat) (it : List (List (List V))) : Option (MArrD3 V) :=
  match mapPanic (MArrD2.fromMultiIter d1 d2) it with
  | none => none
  | some planes => (MArrD1.fromIter d0 planes).map (⟨·⟩)

/-- `from_fn`: `Self::from_iter(Self::keys().map(f))` -/
def MArrD1.fromFn {V : Type} (d0 : Nat) (f : Nat → V) : Option (MArrD1 V) :=
  MArrD1.fromIter d0 ((keys d0).map f)
def MArrD2.fromFn {V : Type} (d0 d1 : Nat) (f : Nat × Nat → V) : Option (MArrD2 V) :=
  MArrD2.fromIter d0 d1 ((keysD2 d0 d1).map f)
def MArrD3.fromFn {V : Type} (d0 d1 d2 : Nat) (f : Nat × Nat × Nat → V) : Option (MArrD3 V) :=
  MArrD3.fromIter d0 d1 d2 ((keysD3 d0 d1 d2).map f)

/-- `zeros` / `default`: `Self::from_fn(|_| V::zero())` -/
def MArrD1.zeros {V : Type} (z : V) (d0 : Nat) : Option (MArrD1 V) := MArrD1.fromFn d0 fun _ => z
def MArrD2.zeros {V : Type} (z : V) (d0 d1 : Nat) : Option (MArrD2 V) := MArrD2.fromFn d0 d1 fun _ => z
def MArrD3.zeros {V : Type} (z : V) (d0 d1 d2 : Nat) : Option (MArrD3 V) := MArrD3.fromFn d0 d1 d2 fun _ => z

/-- `index`: `&self.inner[index.into()]`, `&self.inner[index.0][index.1]`, `&self.inner[index.0][(index.1, index.2)]` -/
def MArrD1.index {V : Type} (a : MArrD1 V) (k0 : Nat) : Option V := a.inner[k0]?
def MArrD2.index {V : Type} (a : MArrD2 V) (k0 k1 : Nat) : Option V :=
  match a.inner.index k0 with | none => none | some r => r.index k1
def MArrD3.index {V : Type} (a : MArrD3 V) (k0 k1 k2 : Nat) : Option V :=
  match a.inner.index k0 with | none => none | some r => r.index k1 k2

def MArrD1.indexMut {V : Type} (a : MArrD1 V) (k0 : Nat) (v : V) : Option (MArrD1 V) :=
  if k0 < a.inner.length then some ⟨a.inner.set k0 v⟩ else none
def MArrD2.indexMut {V : Type} (a : MArrD2 V) (k0 k1 : Nat) (v : V) : Option (MArrD2 V) :=
  match a.inner.index k0 with
  | none => none
  | some r => match r.indexMut k1 v with
    | none => none
    | some r' => (a.inner.indexMut k0 r').map (⟨·⟩)
def MArrD3.indexMut {V : Type} (a : MArrD3 V) (k0 k1 k2 : Nat) (v : V) : Option (MArrD3 V) :=
  match a.inner.index k0 with
  | none => none
  | some r => match r.indexMut k1 k2 v with
    | none => none
    | some r' => (a.inner.indexMut k0 r').map (⟨·⟩)

/-- `down` / `down_mut` (`*a.down_mut(i) = sub`) -/
def MArrD2.down {V : Type} (a : MArrD2 V) (i : Nat) : Option (MArrD1 V) := a.inner.index i
def MArrD3.down {V : Type} (a : MArrD3 V) (i : Nat) : Option (MArrD2 V) := a.inner.index i
def MArrD2.downMutSet {V : Type} (a : MArrD2 V) (i : Nat) (sub : MArrD1 V) : Option (MArrD2 V) :=
  (a.inner.indexMut i sub).map (⟨·⟩)
def MArrD3.downMutSet {V : Type} (a : MArrD3 V) (i : Nat) (sub : MArrD2 V) : Option (MArrD3 V) :=
  (a.inner.indexMut i sub).map (⟨·⟩)

/-- shared iteration -/
abbrev MArrD2.It (V : Type) := Iter (MArrD1 V) (SliceIter V)
abbrev MArrD3.It (V : Type) := Iter (MArrD2 V) (MArrD2.It V)

def MArrD1.iter {V : Type} (a : MArrD1 V) : SliceIter V := a.inner
def MArrD2.iter {V : Type} (a : MArrD2 V) : MArrD2.It V := Iter.new MArrD1.iter a.inner.inner
def MArrD2.itNext {V : Type} : MArrD2.It V → Option V × MArrD2.It V := Iter.next MArrD1.iter SliceIter.next
def MArrD3.iter {V : Type} (a : MArrD3 V) : MArrD3.It V := Iter.new MArrD2.iter a.inner.inner
def MArrD3.itNext {V : Type} : MArrD3.It V → Option V × MArrD3.It V := Iter.next MArrD2.iter MArrD2.itNext

/-- `clone`, `conv` (moves `inner` under another marker), `as_ref` (`from_iter(self.iter())`, cells are references:
    the model identifies a reference with the value it points to) -/
def MArrD1.clone {V : Type} (a : MArrD1 V) : MArrD1 V := ⟨a.inner⟩
def MArrD2.clone {V : Type} (a : MArrD2 V) : MArrD2 V := ⟨⟨a.inner.inner.map MArrD1.clone⟩⟩
def MArrD3.clone {V : Type} (a : MArrD3 V) : MArrD3 V := ⟨⟨a.inner.inner.map MArrD2.clone⟩⟩
def MArrD1.conv {V : Type} (a : MArrD1 V) : MArrD1 V := ⟨a.inner⟩
def MArrD1.asRef {V : Type} (d0 : Nat) (a : MArrD1 V) : Option (MArrD1 V) :=
  MArrD1.fromIter d0 (drain SliceIter.next (a.inner.length + 1) a.iter).1

/-- three-valued result of the labelled `try_from`: the conversions of a row are collected first (`?` returns the
    first error), then `Self::new` asserts the length -/
inductive TRes (E A : Type) where
  | ok (a : A)
  | err (e : E)
  | panic
deriving Repr

/-- `value.into_iter().map(f).collect::<Result<Vec<_>, _>>()` where `f` may also panic; lazy, left to right -/
def collectT {T A E : Type} (f : T → TRes E A) : List T → TRes E (List A)
  | [] => .ok []
  | x :: xs =>
    match f x with
    | .err e => .err e
    | .panic => .panic
    | .ok a => match collectT f xs with
      | .err e => .err e
      | .panic => .panic
      | .ok as => .ok (a :: as)

def MArrD1.tryFrom {T U E : Type} (cv : T → Except E U) (d0 : Nat) (v : List T) : TRes E (MArrD1 U) :=
  match tryCells cv v with
  | .error e => .err e
  | .ok us => match MArrD1.new d0 us with | none => .panic | some a => .ok a
def MArrD2.tryFrom {T U E : Type} (cv : T → Except E U) (d0 d1 : Nat) (v : List (List T)) : TRes E (MArrD2 U) :=
  match collectT (MArrD1.tryFrom cv d1) v with
  | .err e => .err e
  | .panic => .panic
  | .ok rows => match MArrD2.new d0 rows with | none => .panic | some a => .ok a
def MArrD3.tryFrom {T U E : Type} (cv : T → Except E U) (d0 d1 d2 : Nat) (v : List (List (List T))) :
    TRes E (MArrD3 U) :=
  match collectT (MArrD2.tryFrom cv d1 d2) v with
  | .err e => .err e
  | .panic => .panic
  | .ok planes => match MArrD3.new d0 planes with | none => .panic | some a => .ok a

/-- `product2_iter`: `iproduct!(w0, w1).map(|(&v0, &v1)| v0 * v1)`; `product2 = from_iter(product2_iter)` -/
def product2Iter {V : Type} (mul : V → V → V) (w0 w1 : MArrD1 V) : List V :=
  (iproduct2 w0.iter w1.iter).map fun p => mul p.1 p.2
def product3Iter {V : Type} (mul : V → V → V) (w0 w1 w2 : MArrD1 V) : List V :=
  (iproduct3 w0.iter w1.iter w2.iter).map fun p => mul (mul p.1 p.2.1) p.2.2
def MArrD2.product2 {V : Type} (mul : V → V → V) (d0 d1 : Nat) (w0 w1 : MArrD1 V) : Option (MArrD2 V) :=
  MArrD2.fromIter d0 d1 (product2Iter mul w0 w1)
def MArrD3.product3 {V : Type} (mul : V → V → V) (d0 d1 d2 : Nat) (w0 w1 w2 : MArrD1 V) : Option (MArrD3 V) :=
  MArrD3.fromIter d0 d1 d2 (product3Iter mul w0 w1 w2)

/-! ## `IterMut`: the same state machine over mutable references.
    A reference is modelled by the storage address (path of `Vec` positions) of the cell it points to: the machine is
    run over the array whose cells hold their own address; a write through the p-th yielded reference updates the cell
    at that address. -/

def MArrD1.addr {V : Type} (pre : List Nat) (a : MArrD1 V) : MArrD1 (List Nat) :=
  ⟨(List.range a.inner.length).map fun j => pre ++ [j]⟩
def MArrD2.addr {V : Type} (pre : List Nat) (a : MArrD2 V) : MArrD2 (List Nat) :=
  ⟨⟨a.inner.inner.mapIdx fun i r => MArrD1.addr (pre ++ [i]) r⟩⟩
def MArrD3.addr {V : Type} (a : MArrD3 V) : MArrD3 (List Nat) :=
  ⟨⟨a.inner.inner.mapIdx fun i r => MArrD2.addr [i] r⟩⟩

def MArrD1.cellCount {V : Type} (a : MArrD1 V) : Nat := a.inner.length
def MArrD2.cellCount {V : Type} (a : MArrD2 V) : Nat := (a.inner.inner.map MArrD1.cellCount).sum
def MArrD3.cellCount {V : Type} (a : MArrD3 V) : Nat := (a.inner.inner.map MArrD2.cellCount).sum

/-- the references yielded by `iter_mut()`, in order -/
def MArrD1.iterMutRefs {V : Type} (a : MArrD1 V) : List (List Nat) :=
  (drain SliceIter.next (a.cellCount + 1) (MArrD1.addr [] a).iter).1
def MArrD2.iterMutRefs {V : Type} (a : MArrD2 V) : List (List Nat) :=
  (drain MArrD2.itNext (a.cellCount + 1) (MArrD2.addr [] a).iter).1
def MArrD3.iterMutRefs {V : Type} (a : MArrD3 V) : List (List Nat) :=
  (drain MArrD3.itNext (a.cellCount + 1) (MArrD3.addr a).iter).1

/-- `for (p, x) in a.iter_mut().enumerate() { *x = g(p, *x) }` -/
def applyRefs {A V : Type} (rd : A → List Nat → Option V) (wr : A → List Nat → V → Option A) (g : Nat → V → V) :
    Nat → List (List Nat) → A → A
  | _, [], a => a
  | p, r :: rs, a =>
    match rd a r with
    | none => applyRefs rd wr g (p + 1) rs a
    | some x => match wr a r (g p x) with
      | none => applyRefs rd wr g (p + 1) rs a
      | some a' => applyRefs rd wr g (p + 1) rs a'

def MArrD1.rd {V : Type} (a : MArrD1 V) : List Nat → Option V | [i] => a.index i | _ => none
def MArrD1.wr {V : Type} (a : MArrD1 V) : List Nat → V → Option (MArrD1 V) | [i], v => a.indexMut i v | _, _ => none
def MArrD2.rd {V : Type} (a : MArrD2 V) : List Nat → Option V | [i, j] => a.index i j | _ => none
def MArrD2.wr {V : Type} (a : MArrD2 V) : List Nat → V → Option (MArrD2 V)
  | [i, j], v => a.indexMut i j v | _, _ => none
def MArrD3.rd {V : Type} (a : MArrD3 V) : List Nat → Option V | [i, j, k] => a.index i j k | _ => none
def MArrD3.wr {V : Type} (a : MArrD3 V) : List Nat → V → Option (MArrD3 V)
  | [i, j, k], v => a.indexMut i j k v | _, _ => none

def MArrD1.iterMutApply {V : Type} (g : Nat → V → V) (a : MArrD1 V) : MArrD1 V :=
  applyRefs MArrD1.rd MArrD1.wr g 0 a.iterMutRefs a
def MArrD2.iterMutApply {V : Type} (g : Nat → V → V) (a : MArrD2 V) : MArrD2 V :=
  applyRefs MArrD2.rd MArrD2.wr g 0 a.iterMutRefs a
def MArrD3.iterMutApply {V : Type} (g : Nat → V → V) (a : MArrD3 V) : MArrD3 V :=
  applyRefs MArrD3.rd MArrD3.wr g 0 a.iterMutRefs a

end SLV.MArr
