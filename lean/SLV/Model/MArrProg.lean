/-
  Array PROGRAMS: a small op language executed (a) on the nested model of the six array kinds
  (unlabelled MArr1/2/3, labelled MArrD1/2/3) and (b) on the flat row-major specification.
  The Rust harness /verif/harness_arr executes the same ops on the real crate types and prints the same
  observation tokens after every step.  Core Lean only.
-/
import SLV.Model.MArr
namespace SLV.MArr

/-- outcome of one call: value, Rust panic, refused by the type checker / not available for this family,
    `Err(e)` of a fallible conversion, or outside the flat specification (ragged unlabelled storage) -/
inductive Out (α : Type) where
  | ok (a : α)
  | panic
  | na
  | err (e : Nat)
  | unspec
deriving Repr

def Out.ofOpt {α : Type} : Option α → Out α | some a => .ok a | none => .panic
def Out.map {α β : Type} (f : α → β) : Out α → Out β
  | .ok a => .ok (f a) | .panic => .panic | .na => .na | .err e => .err e | .unspec => .unspec
def Out.bind {α β : Type} (o : Out α) (f : α → Out β) : Out β :=
  match o with | .ok a => f a | .panic => .panic | .na => .na | .err e => .err e | .unspec => .unspec

/-- nested literal of rank 1, 2 or 3 -/
inductive Nested where
  | n1 (v : List Nat)
  | n2 (v : List (List Nat))
  | n3 (v : List (List (List Nat)))
deriving Repr

inductive Op where
  | zeros | dflt
  | fn (seed : Nat)
  | flat (v : List Nat)
  | nest (t : Nested)
  | get (idx : List Nat)
  | set (idx : List Nat) (v : Nat)
  | imadd (c : Nat)
  | dmset (i : Nat) (idx : List Nat) (v : Nat)
  | dmfn (i : Nat) (seed : Nat)
  | down (i : Nat)
  | clone | eq | swap | conv | asref
  | prod (ws : List (List Nat))
  | prodit (ws : List (List Nat))
  | tryf (t : Nested)
  | iter | index | iterWith | indexes | keys | dkeys | len
  | resume (k : Nat)
  | bad
deriving Repr

/-- what the harness prints after a step that dumps an array: cells by shared iteration, two further `next()` after
    the first `None`, cells by indexing over `indexes()` (`none` = a panic while indexing) -/
structure Dump where
  it : List Nat
  extra : List (Option Nat)
  ix : Option (List Nat)
deriving Repr

def u64 : Nat := 18446744073709551616
def mulU (a b : Nat) : Nat := (a * b) % u64
def addU (a b : Nat) : Nat := (a + b) % u64

/-- cell written by `build_fn seed` at multi-index `k` (asymmetric in the coordinates) -/
def cellFn (seed : Nat) (k : List Nat) : Nat := seed * 1000 + k.foldl (fun acc x => acc * 7 + x + 1) 0

/-- `iter_mut_add c`: the cell at iteration position `p` gets `cell + c*(p+1)` -/
def imaddFn (c : Nat) (p : Nat) (x : Nat) : Nat := addU x (mulU c (p + 1))

/-- the fallible cell conversion of the harness: `Ev::try_from(v)` fails with `Odd(v)` on odd values -/
def cvEven (v : Nat) : Except Nat Nat := if v % 2 = 1 then .error v else .ok v

def prodDims (dims : List Nat) : Nat := dims.foldl (· * ·) 1

/-- the operations of one array kind, observation level -/
structure Kind (A : Type) where
  dims : List Nat
  labelled : Bool
  newtype : Bool
  zeros : Out A
  dflt : Out A
  fromFn : (List Nat → Nat) → Out A
  fromIter : List Nat → Out A
  fromNested : Nested → Out A
  index : A → List Nat → Out Nat
  indexMut : A → List Nat → Nat → Out A
  dump : A → Dump
  iterMutAdd : Nat → A → Out A
  downDump : A → Nat → Out Dump
  downMutSet : A → Nat → List Nat → Nat → Out A
  downMutFn : A → Nat → (List Nat → Nat) → Out A
  beq : A → A → Bool
  clone : A → A
  conv : A → Out Dump
  asRef : A → Out Dump
  product : List (List Nat) → Out A
  productIter : List (List Nat) → Out (List Nat)
  tryFrom : Nested → Out (List Nat)
  iterWith : A → Out (List (List Nat × Nat))
  indexes : List (List Nat) × List (Option (List Nat))
  keys : Out (List (List Nat) × List (Option (List Nat)))
  len : Out Nat
  resumeIdx : Nat → List (Option (List Nat)) × List (List Nat)
  resumeKeys : Nat → Out (List (Option (List Nat)) × List (List Nat))

/-! ### observation tokens -/

def tupStr (k : List Nat) : String := ".".intercalate (k.map toString)
def optStr (o : Option Nat) : String := match o with | none => "N" | some v => "S" ++ toString v
def optTupStr (o : Option (List Nat)) : String := match o with | none => "N" | some k => "S" ++ tupStr k

def Dump.toks (d : Dump) : List String :=
  ["it"] ++ d.it.map toString ++ ["x"] ++ d.extra.map optStr ++ ["ix"] ++
    (match d.ix with | none => ["panic"] | some l => l.map toString)

def outToks {α : Type} (f : α → List String) : Out α → List String
  | .ok a => f a
  | .panic => ["panic"]
  | .na => ["na"]
  | .err e => ["err", toString e]
  | .unspec => ["unspec"]

def enumToks (r : List (List Nat) × List (Option (List Nat))) : List String :=
  r.1.map tupStr ++ ["end"] ++ r.2.map optTupStr

/-- the multi-index with every coordinate at its maximum (0 on an empty axis: then nothing is enumerated anyway) -/
def lastOf (dims : List Nat) : List Nat := dims.map (· - 1)

/-- `resume:<k>` on one enumeration: `r.1` = results of the `k` leading `next()`, `r.2` = the remainder.  Every
    consumer of the harness runs on its own freshly advanced iterator and must see the remainder:
    `collect`, `for_each`, `fold`, `count`, `last`, `nth(0)`, `nth(1)` then `next()`, `skip(1).next()`,
    `step_by(2)`, `min`, `max`, `position(== last tuple of the shape)`, `all(|_| true)` then `next()`.
    `sh=<n>`: the number of remaining items, which the iterator's `size_hint()` must bracket (checked by the driver). -/
def resumeObsToks (last : List Nat) (r : List (Option (List Nat)) × List (List Nat)) : List String :=
  let l := r.2
  ["adv"] ++ r.1.map optTupStr ++ ["sh=" ++ toString l.length] ++
  ["col"] ++ l.map tupStr ++ ["fe"] ++ l.map tupStr ++ ["fo"] ++ l.map tupStr ++
  ["cnt", toString l.length, "last", optTupStr l.getLast?, "nth0", optTupStr l[0]?,
   "nth1", optTupStr l[1]?, optTupStr l[2]?, "skip1", optTupStr l[1]?] ++
  ["step2"] ++ (stepBy2 l).map tupStr ++
  ["min", optTupStr (minLex l), "max", optTupStr (maxLex l), "pos", optStr (l.findIdx? (· == last)),
   "all", "T", "N"] ++
  -- longer jumps: `nth(j)` then `next()`, `skip(j).next()` for j = 2, 3, 5, 7; `step_by(3)`
  ([2, 3, 5, 7].flatMap fun j =>
    ["nth" ++ toString j, optTupStr l[j]?, optTupStr l[j + 1]?, "skip" ++ toString j, optTupStr l[j]?]) ++
  ["step3"] ++ ((List.range l.length).filterMap fun i => if i % 3 == 0 then l[i]? else none).map tupStr

def resumeToks (dims : List Nat) (ri : List (Option (List Nat)) × List (List Nat))
    (rk : Out (List (Option (List Nat)) × List (List Nat))) : List String :=
  ["ix"] ++ resumeObsToks (lastOf dims) ri ++ ["ky"] ++ outToks (resumeObsToks (lastOf dims)) rk

/-- `dkeys`: per axis the keys of the domain (as usize), their round trip `usize -> Idx -> usize` and the value after
    conversion to the sibling domain's index type; then three further `next()` -/
def dkeysToks (newtype : Bool) (dims : List Nat) : List String :=
  dims.flatMap fun n =>
    ["ax"] ++ (keys n).map (fun k =>
      let rt := if newtype then (NewIdx.ofUsize k).toUsize else k
      let sb := if newtype then (NewIdx.ofUsize k).sib.toUsize else k
      toString k ++ ":" ++ toString rt ++ ":" ++ toString sb) ++ ["end", "N", "N", "N"]

structure St (A : Type) where
  a : A
  b : A

/-- a state-changing step: on success register `a` is replaced and the new array is dumped -/
def Kind.setA {A : Type} (K : Kind A) (s : St A) (o : Out A) : St A × List String :=
  match o with
  | .ok a' => ({ s with a := a' }, "ok" :: (K.dump a').toks)
  | o => (s, outToks (fun _ => []) o)

/-- one step: new state and the observation tokens -/
def Kind.step {A : Type} (K : Kind A) (s : St A) (op : Op) : St A × List String :=
  let setA := K.setA s
  match op with
  | .zeros => setA K.zeros
  | .dflt => setA K.dflt
  | .fn seed => setA (K.fromFn (cellFn seed))
  | .flat v => setA (K.fromIter v)
  | .nest t => setA (K.fromNested t)
  | .get idx => (s, outToks (fun v => ["v", toString v]) (K.index s.a idx))
  | .set idx v => setA (K.indexMut s.a idx v)
  | .imadd c => setA (K.iterMutAdd c s.a)
  | .dmset i idx v => setA (K.downMutSet s.a i idx v)
  | .dmfn i seed => setA (K.downMutFn s.a i (cellFn seed))
  | .down i => (s, outToks (fun d => "ok" :: d.toks) (K.downDump s.a i))
  | .clone => let b := K.clone s.a; ({ s with b := b }, "ok" :: (K.dump b).toks)
  | .eq => (s, [if K.beq s.a s.b then "T" else "F"])
  | .swap => ({ a := s.b, b := s.a }, ["ok"])
  | .conv => (s, outToks (fun d => "ok" :: d.toks) (K.conv s.a))
  | .asref => (s, outToks (fun d => "ok" :: d.toks) (K.asRef s.a))
  | .prod ws => setA (K.product ws)
  | .prodit ws => (s, outToks (fun l => "ok" :: l.map toString) (K.productIter ws))
  | .tryf t => (s, outToks (fun l => "ok" :: l.map toString) (K.tryFrom t))
  | .iter => let d := K.dump s.a; (s, ["it"] ++ d.it.map toString ++ ["x"] ++ d.extra.map optStr)
  | .index => (s, "ix" :: (match (K.dump s.a).ix with | none => ["panic"] | some l => l.map toString))
  | .iterWith => (s, outToks (fun l => "w" :: l.map fun p => tupStr p.1 ++ "=" ++ toString p.2) (K.iterWith s.a))
  | .indexes => (s, enumToks K.indexes)
  | .keys => (s, outToks enumToks K.keys)
  | .dkeys => (s, if K.labelled then dkeysToks K.newtype K.dims else ["na"])
  | .len => (s, outToks (fun n => ["v", toString n]) K.len)
  | .resume k => (s, resumeToks K.dims (K.resumeIdx k) (K.resumeKeys k))
  | .bad => (s, ["na"])

def Kind.go {A : Type} (K : Kind A) : St A → List Op → List (List String)
  | _, [] => []
  | s, op :: ops => let r := K.step s op; r.2 :: K.go r.1 ops

/-- the state-free steps: associated functions of the array / domain types, run without an array -/
def Kind.staticToks {A : Type} (K : Kind A) : Op → Option (List String)
  | .indexes => some (enumToks K.indexes)
  | .keys => some (outToks enumToks K.keys)
  | .dkeys => some (if K.labelled then dkeysToks K.newtype K.dims else ["na"])
  | .resume k => some (resumeToks K.dims (K.resumeIdx k) (K.resumeKeys k))
  | _ => none

/-- the observation trace of a program; both registers start as `zeros()`; if that already fails only the
    state-free steps are run -/
def Kind.run {A : Type} (K : Kind A) (prog : List Op) : List (List String) :=
  match K.zeros with
  | .ok z => K.go { a := z, b := z } prog
  | _ => prog.map fun op => (K.staticToks op).getD ["noinit"]

/-! ### helpers shared by the nested kinds -/

def mkDump {A σ : Type} (iter : A → σ) (nx : σ → Option Nat × σ) (fuel : A → Nat)
    (idxs : List (List Nat)) (index : A → List Nat → Option Nat) (a : A) : Dump :=
  let r := drain nx (fuel a + 1) (iter a)
  { it := r.1, extra := (nextN nx 2 r.2).1, ix := idxs.mapM (index a) }

def mkIterWith {A : Type} (idxs : List (List Nat)) (index : A → List Nat → Option Nat) (a : A) :
    Out (List (List Nat × Nat)) :=
  Out.ofOpt (idxs.mapM fun k => (index a k).map fun v => (k, v))

/-- `indexes()` drained, then three further `next()` -/
def mrEnum (size : List Nat) : List (List Nat) × List (Option (List Nat)) :=
  let r := drain MultiRange.next (prodDims size + 1) (MultiRange.new size)
  (r.1, (nextN MultiRange.next 3 r.2).1)

/-- a labelled enumeration (`iproduct!` of the axis keys, modelled as the list of its items) resumed after `k`
    calls of `next()` -/
def listResume (l : List (List Nat)) (k : Nat) : List (Option (List Nat)) × List (List Nat) :=
  resumeRun SliceIter.next k (l.length + 1) l

/-- specification of a resumed enumeration of the items `l`: the `k` calls return the first `k` items (`None`
    beyond the end), the remainder is `l.drop k` -/
def specResume (l : List (List Nat)) (k : Nat) : List (Option (List Nat)) × List (List Nat) :=
  ((l.take k).map some ++ List.replicate (k - l.length) none, l.drop k)

def flatten2 {V : Type} (v : List (List V)) : List V := v.flatten
def flatten3 {V : Type} (v : List (List (List V))) : List V := v.flatten.flatten

/-! ### unlabelled kinds -/

def U1.idx (a : MArr1 Nat) : List Nat → Option Nat | [i] => MArr1.index a i | _ => none
def U2.idx (a : MArr2 Nat) : List Nat → Option Nat | [i, j] => MArr2.index a i j | _ => none
def U3.idx (a : MArr3 Nat) : List Nat → Option Nat | [i, j, k] => MArr3.index a i j k | _ => none

def exceptOut {α : Type} : Except Nat α → Out α | .ok a => .ok a | .error e => .err e

def kindU1 (k0 : Nat) : Kind (MArr1 Nat) where
  dims := [k0]
  labelled := false
  newtype := false
  zeros := .ok (MArr1.zeros 0 k0)
  dflt := .ok (MArr1.zeros 0 k0)
  fromFn f := .ok (MArr1.fromFn k0 f)
  fromIter v := .ok (MArr1.fromIter v)
  fromNested | .n1 v => .ok (MArr1.fromIter v) | _ => .na
  index a | [i] => Out.ofOpt (MArr1.index a i) | _ => .na
  indexMut a | [i], v => Out.ofOpt (MArr1.indexMut a i v) | _, _ => .na
  dump := mkDump MArr1.iter SliceIter.next List.length (MultiRange.toList [k0]) U1.idx
  iterMutAdd _ _ := .na
  downDump _ _ := .na
  downMutSet _ _ _ _ := .na
  downMutFn _ _ _ := .na
  beq a b := a == b
  clone a := a
  conv _ := .na
  asRef _ := .na
  product _ := .na
  productIter _ := .na
  tryFrom
    | .n1 v => if v.length = k0 then
        (exceptOut (MArr1.tryFrom cvEven v)).map fun a => (drain SliceIter.next (a.length + 1) (MArr1.iter a)).1
      else .na
    | _ => .na
  iterWith := mkIterWith (MultiRange.toList [k0]) U1.idx
  indexes := mrEnum [k0]
  keys := .na
  len := .ok k0
  resumeIdx := MultiRange.resume [k0]
  resumeKeys _ := .na

def cells2 (a : MArr2 Nat) : Nat := (a.map List.length).sum
def cells3 (a : MArr3 Nat) : Nat := (a.map cells2).sum

def kindU2 (k0 k1 : Nat) : Kind (MArr2 Nat) where
  dims := [k0, k1]
  labelled := false
  newtype := false
  zeros := .ok (MArr2.zeros 0 k0 k1)
  dflt := .ok (MArr2.zeros 0 k0 k1)
  fromFn f := Out.ofOpt (MArr2.fromFn k0 k1 f)
  fromIter v := Out.ofOpt (MArr2.fromIter k0 k1 v)
  fromNested
    | .n2 rows => if rows.length = k0 then .ok (rows.map MArr1.fromIter) else .na
    | _ => .na
  index a | [i, j] => Out.ofOpt (MArr2.index a i j) | _ => .na
  indexMut a | [i, j], v => Out.ofOpt (MArr2.indexMut a i j v) | _, _ => .na
  dump := mkDump MArr2.iter MArr2.itNext cells2 (MultiRange.toList [k0, k1]) U2.idx
  iterMutAdd _ _ := .na
  downDump _ _ := .na
  downMutSet _ _ _ _ := .na
  downMutFn _ _ _ := .na
  beq a b := a == b
  clone a := a
  conv _ := .na
  asRef _ := .na
  product
    | [w0, w1] => if w0.length = k0 ∧ w1.length = k1 then Out.ofOpt (MArr2.product2 mulU 0 w0 w1) else .na
    | _ => .na
  productIter _ := .na
  tryFrom
    | .n2 v => if v.length = k0 ∧ v.all (fun r => r.length == k1) then
        (exceptOut (MArr2.tryFrom cvEven v)).map fun a => (drain MArr2.itNext (cells2 a + 1) (MArr2.iter a)).1
      else .na
    | _ => .na
  iterWith := mkIterWith (MultiRange.toList [k0, k1]) U2.idx
  indexes := mrEnum [k0, k1]
  keys := .na
  len := .ok (k0 * k1)
  resumeIdx := MultiRange.resume [k0, k1]
  resumeKeys _ := .na

def kindU3 (k0 k1 k2 : Nat) : Kind (MArr3 Nat) where
  dims := [k0, k1, k2]
  labelled := false
  newtype := false
  zeros := .ok (MArr3.zeros 0 k0 k1 k2)
  dflt := .ok (MArr3.zeros 0 k0 k1 k2)
  fromFn f := Out.ofOpt (MArr3.fromFn k0 k1 k2 f)
  fromIter v := Out.ofOpt (MArr3.fromIter k0 k1 k2 v)
  fromNested
    | .n3 planes =>
      if planes.length = k0 ∧ planes.all (fun p => p.length == k1) then
        .ok (planes.map fun p => p.map MArr1.fromIter) else .na
    | _ => .na
  index a | [i, j, k] => Out.ofOpt (MArr3.index a i j k) | _ => .na
  indexMut a | [i, j, k], v => Out.ofOpt (MArr3.indexMut a i j k v) | _, _ => .na
  dump := mkDump MArr3.iter MArr3.itNext cells3 (MultiRange.toList [k0, k1, k2]) U3.idx
  iterMutAdd _ _ := .na
  downDump _ _ := .na
  downMutSet _ _ _ _ := .na
  downMutFn _ _ _ := .na
  beq a b := a == b
  clone a := a
  conv _ := .na
  asRef _ := .na
  product
    | [w0, w1, w2] =>
      if w0.length = k0 ∧ w1.length = k1 ∧ w2.length = k2 then Out.ofOpt (MArr3.product3 mulU 0 w0 w1 w2) else .na
    | _ => .na
  productIter _ := .na
  tryFrom
    | .n3 v =>
      if v.length = k0 ∧ v.all (fun p => p.length == k1 && p.all (fun r => r.length == k2)) then
        (exceptOut (MArr3.tryFrom cvEven v)).map fun a => (drain MArr3.itNext (cells3 a + 1) (MArr3.iter a)).1
      else .na
    | _ => .na
  iterWith := mkIterWith (MultiRange.toList [k0, k1, k2]) U3.idx
  indexes := mrEnum [k0, k1, k2]
  keys := .na
  len := .ok (k0 * k1 * k2)
  resumeIdx := MultiRange.resume [k0, k1, k2]
  resumeKeys _ := .na

/-! ### labelled kinds -/

def L1.idx (a : MArrD1 Nat) : List Nat → Option Nat | [i] => a.index i | _ => none
def L2.idx (a : MArrD2 Nat) : List Nat → Option Nat | [i, j] => a.index i j | _ => none
def L3.idx (a : MArrD3 Nat) : List Nat → Option Nat | [i, j, k] => a.index i j k | _ => none

def idx1 (d0 : Nat) : List (List Nat) := (keys d0).map fun i => [i]
def idx2 (d0 d1 : Nat) : List (List Nat) := (keysD2 d0 d1).map fun p => [p.1, p.2]
def idx3 (d0 d1 d2 : Nat) : List (List Nat) := (keysD3 d0 d1 d2).map fun p => [p.1, p.2.1, p.2.2]

def fn1 (f : List Nat → Nat) (i : Nat) : Nat := f [i]
def fn2 (f : List Nat → Nat) (p : Nat × Nat) : Nat := f [p.1, p.2]
def fn3 (f : List Nat → Nat) (p : Nat × Nat × Nat) : Nat := f [p.1, p.2.1, p.2.2]

def tresOut {α : Type} : TRes Nat α → Out α | .ok a => .ok a | .err e => .err e | .panic => .panic

def L1.dump (d0 : Nat) : MArrD1 Nat → Dump :=
  mkDump MArrD1.iter SliceIter.next MArrD1.cellCount (idx1 d0) L1.idx
def L2.dump (d0 d1 : Nat) : MArrD2 Nat → Dump :=
  mkDump MArrD2.iter MArrD2.itNext MArrD2.cellCount (idx2 d0 d1) L2.idx

def kindL1 (newtype : Bool) (d0 : Nat) : Kind (MArrD1 Nat) where
  dims := [d0]
  labelled := true
  newtype := newtype
  zeros := Out.ofOpt (MArrD1.zeros 0 d0)
  dflt := Out.ofOpt (MArrD1.zeros 0 d0)
  fromFn f := Out.ofOpt (MArrD1.fromFn d0 (fn1 f))
  fromIter v := Out.ofOpt (MArrD1.fromIter d0 v)
  fromNested | .n1 v => Out.ofOpt (MArrD1.fromIter d0 v) | _ => .na
  index a | [i] => Out.ofOpt (a.index i) | _ => .na
  indexMut a | [i], v => Out.ofOpt (a.indexMut i v) | _, _ => .na
  dump := L1.dump d0
  iterMutAdd c a := .ok (a.iterMutApply (imaddFn c))
  downDump _ _ := .na
  downMutSet _ _ _ _ := .na
  downMutFn _ _ _ := .na
  beq a b := a == b
  clone a := a.clone
  conv a := .ok (L1.dump d0 a.clone.conv)
  asRef a := (Out.ofOpt (a.asRef d0)).map (L1.dump d0)
  product _ := .na
  productIter _ := .na
  tryFrom
    | .n1 v => (tresOut (MArrD1.tryFrom cvEven d0 v)).map fun a => (L1.dump d0 a).it
    | _ => .na
  iterWith := mkIterWith (idx1 d0) L1.idx
  indexes := (idx1 d0, [none, none, none])
  keys := .ok (idx1 d0, [none, none, none])
  len := .na
  resumeIdx := listResume (idx1 d0)
  resumeKeys k := .ok (listResume (idx1 d0) k)

def kindL2 (newtype : Bool) (d0 d1 : Nat) : Kind (MArrD2 Nat) where
  dims := [d0, d1]
  labelled := true
  newtype := newtype
  zeros := Out.ofOpt (MArrD2.zeros 0 d0 d1)
  dflt := Out.ofOpt (MArrD2.zeros 0 d0 d1)
  fromFn f := Out.ofOpt (MArrD2.fromFn d0 d1 (fn2 f))
  fromIter v := Out.ofOpt (MArrD2.fromIter d0 d1 v)
  fromNested | .n2 v => Out.ofOpt (MArrD2.fromMultiIter d0 d1 v) | _ => .na
  index a | [i, j] => Out.ofOpt (a.index i j) | _ => .na
  indexMut a | [i, j], v => Out.ofOpt (a.indexMut i j v) | _, _ => .na
  dump := L2.dump d0 d1
  iterMutAdd c a := .ok (a.iterMutApply (imaddFn c))
  downDump a i := (Out.ofOpt (a.down i)).map (L1.dump d1)
  downMutSet a i
    | [j], v => Out.ofOpt (match a.down i with
        | none => none
        | some r => match r.indexMut j v with | none => none | some r' => a.downMutSet i r')
    | _, _ => .na
  downMutFn a i f := Out.ofOpt (match MArrD1.fromFn d1 (fn1 f) with
    | none => none | some sub => a.downMutSet i sub)
  beq a b := a == b
  clone a := a.clone
  conv _ := .na
  asRef _ := .na
  product
    | [w0, w1] => Out.ofOpt (match MArrD1.fromIter d0 w0, MArrD1.fromIter d1 w1 with
        | some a0, some a1 => MArrD2.product2 mulU d0 d1 a0 a1 | _, _ => none)
    | _ => .na
  productIter
    | [w0, w1] => Out.ofOpt (match MArrD1.fromIter d0 w0, MArrD1.fromIter d1 w1 with
        | some a0, some a1 => some (product2Iter mulU a0 a1) | _, _ => none)
    | _ => .na
  tryFrom
    | .n2 v => (tresOut (MArrD2.tryFrom cvEven d0 d1 v)).map fun a => (L2.dump d0 d1 a).it
    | _ => .na
  iterWith := mkIterWith (idx2 d0 d1) L2.idx
  indexes := (idx2 d0 d1, [none, none, none])
  keys := .ok (idx2 d0 d1, [none, none, none])
  len := .na
  resumeIdx := listResume (idx2 d0 d1)
  resumeKeys k := .ok (listResume (idx2 d0 d1) k)

def L3.dump (d0 d1 d2 : Nat) : MArrD3 Nat → Dump :=
  mkDump MArrD3.iter MArrD3.itNext MArrD3.cellCount (idx3 d0 d1 d2) L3.idx

def kindL3 (newtype : Bool) (d0 d1 d2 : Nat) : Kind (MArrD3 Nat) where
  dims := [d0, d1, d2]
  labelled := true
  newtype := newtype
  zeros := Out.ofOpt (MArrD3.zeros 0 d0 d1 d2)
  dflt := Out.ofOpt (MArrD3.zeros 0 d0 d1 d2)
  fromFn f := Out.ofOpt (MArrD3.fromFn d0 d1 d2 (fn3 f))
  fromIter v := Out.ofOpt (MArrD3.fromIter d0 d1 d2 v)
  fromNested | .n3 v => Out.ofOpt (MArrD3.fromMultiIter d0 d1 d2 v) | _ => .na
  index a | [i, j, k] => Out.ofOpt (a.index i j k) | _ => .na
  indexMut a | [i, j, k], v => Out.ofOpt (a.indexMut i j k v) | _, _ => .na
  dump := L3.dump d0 d1 d2
  iterMutAdd c a := .ok (a.iterMutApply (imaddFn c))
  downDump a i := (Out.ofOpt (a.down i)).map (L2.dump d1 d2)
  downMutSet a i
    | [j, k], v => Out.ofOpt (match a.down i with
        | none => none
        | some r => match r.indexMut j k v with | none => none | some r' => a.downMutSet i r')
    | _, _ => .na
  downMutFn a i f := Out.ofOpt (match MArrD2.fromFn d1 d2 (fn2 f) with
    | none => none | some sub => a.downMutSet i sub)
  beq a b := a == b
  clone a := a.clone
  conv _ := .na
  asRef _ := .na
  product
    | [w0, w1, w2] => Out.ofOpt (match MArrD1.fromIter d0 w0, MArrD1.fromIter d1 w1, MArrD1.fromIter d2 w2 with
        | some a0, some a1, some a2 => MArrD3.product3 mulU d0 d1 d2 a0 a1 a2 | _, _, _ => none)
    | _ => .na
  productIter
    | [w0, w1, w2] => Out.ofOpt (match MArrD1.fromIter d0 w0, MArrD1.fromIter d1 w1, MArrD1.fromIter d2 w2 with
        | some a0, some a1, some a2 => some (product3Iter mulU a0 a1 a2) | _, _, _ => none)
    | _ => .na
  tryFrom
    | .n3 v => (tresOut (MArrD3.tryFrom cvEven d0 d1 d2 v)).map fun a => (L3.dump d0 d1 d2 a).it
    | _ => .na
  iterWith := mkIterWith (idx3 d0 d1 d2) L3.idx
  indexes := (idx3 d0 d1 d2, [none, none, none])
  keys := .ok (idx3 d0 d1 d2, [none, none, none])
  len := .na
  resumeIdx := listResume (idx3 d0 d1 d2)
  resumeKeys k := .ok (listResume (idx3 d0 d1 d2) k)

/-! ### the flat row-major specification -/

/-- row-major position of a multi-index -/
def pos (dims idx : List Nat) : Nat := (List.zip idx dims).foldl (fun acc p => acc * p.2 + p.1) 0

def inShape (dims idx : List Nat) : Bool :=
  idx.length == dims.length && (List.zip idx dims).all fun p => decide (p.1 < p.2)

def specDump (cells : List Nat) : Dump := { it := cells, extra := [none, none], ix := some cells }

/-- shape of a nested literal: exact match against `dims` -/
def Nested.rank : Nested → Nat | .n1 _ => 1 | .n2 _ => 2 | .n3 _ => 3
def Nested.flat : Nested → List Nat | .n1 v => v | .n2 v => flatten2 v | .n3 v => flatten3 v
/-- the counts of all levels but the innermost agree with `dims` (what the unlabelled constructors get from typing) -/
def Nested.outerOk (dims : List Nat) : Nested → Bool
  | .n1 _ => dims.length == 1
  | .n2 v => dims.length == 2 && v.length == dims.getD 0 0
  | .n3 v => dims.length == 3 && v.length == dims.getD 0 0 && v.all fun p => p.length == dims.getD 1 0
def Nested.innerOk (dims : List Nat) : Nested → Bool
  | .n1 v => v.length == dims.getD 0 0
  | .n2 v => v.all fun r => r.length == dims.getD 1 0
  | .n3 v => v.all fun p => p.all fun r => r.length == dims.getD 2 0
def Nested.shapeOk (dims : List Nat) (t : Nested) : Bool := t.outerOk dims && t.innerOk dims

/-- first failing cell in row-major order, else the cells -/
def firstErr (cells : List Nat) : Out (List Nat) :=
  match cells.find? (fun v => v % 2 == 1) with
  | some v => .err v
  | none => .ok cells

/-- labelled `try_from` on an arbitrary nested literal (the input is a nested `Vec`, not array storage, so the
    specification is stated on it directly) -/
def specTryLabelled (dims : List Nat) : Nested → Out (List Nat)
  | .n1 v => (tresOut (MArrD1.tryFrom cvEven (dims.getD 0 0) v)).map (·.inner)
  | .n2 v => (tresOut (MArrD2.tryFrom cvEven (dims.getD 0 0) (dims.getD 1 0) v)).map
      fun a => (a.inner.inner.map (·.inner)).flatten
  | .n3 v => (tresOut (MArrD3.tryFrom cvEven (dims.getD 0 0) (dims.getD 1 0) (dims.getD 2 0) v)).map
      fun a => ((a.inner.inner.map fun p => p.inner.inner.map (·.inner)).flatten).flatten

def outerList (ws : List (List Nat)) : List Nat :=
  match ws with
  | [w0, w1] => w0.flatMap fun a => w1.map fun b => mulU a b
  | [w0, w1, w2] => w0.flatMap fun a => w1.flatMap fun b => w2.map fun c => mulU (mulU a b) c
  | _ => []

def specProduct (labelled : Bool) (dims : List Nat) (ws : List (List Nat)) : Out (List Nat) :=
  if dims.length < 2 || ws.length != dims.length then .na
  else if ws.map List.length == dims then .ok (outerList ws)
  else if labelled then .panic else .na

def kindSpec (labelled newtype : Bool) (dims : List Nat) : Kind (List Nat) where
  dims := dims
  labelled := labelled
  newtype := newtype
  zeros := .ok (List.replicate (prodDims dims) 0)
  dflt := .ok (List.replicate (prodDims dims) 0)
  fromFn f := .ok ((lexList dims).map f)
  fromIter v :=
    if dims.length == 1 then
      if v.length == prodDims dims then .ok v else if labelled then .panic else .unspec
    else if prodDims dims ≤ v.length then .ok (v.take (prodDims dims)) else .panic
  fromNested t :=
    if t.rank != dims.length then .na
    else if labelled then (if t.shapeOk dims then .ok t.flat else .panic)
    else if !t.outerOk dims then .na
    else if t.innerOk dims then .ok t.flat else .unspec
  index cells idx :=
    if idx.length != dims.length then .na
    else if inShape dims idx then Out.ofOpt cells[pos dims idx]? else .panic
  indexMut cells idx v :=
    if idx.length != dims.length then .na
    else if inShape dims idx then .ok (cells.set (pos dims idx) v) else .panic
  dump := specDump
  iterMutAdd c cells := if labelled then .ok (cells.mapIdx fun p x => imaddFn c p x) else .na
  downDump cells i :=
    if !labelled || dims.length < 2 then .na
    else if i < dims.getD 0 0 then
      .ok (specDump ((cells.drop (i * prodDims dims.tail)).take (prodDims dims.tail)))
    else .panic
  downMutSet cells i idx v :=
    if !labelled || dims.length < 2 || idx.length + 1 != dims.length then .na
    else if inShape dims (i :: idx) then .ok (cells.set (pos dims (i :: idx)) v) else .panic
  downMutFn cells i f :=
    if !labelled || dims.length < 2 then .na
    else if i < dims.getD 0 0 then
      let sub := prodDims dims.tail
      .ok (cells.take (i * sub) ++ (lexList dims.tail).map f ++ cells.drop ((i + 1) * sub))
    else .panic
  beq a b := a == b
  clone a := a
  conv cells := if labelled && dims.length == 1 then .ok (specDump cells) else .na
  asRef cells := if labelled && dims.length == 1 then .ok (specDump cells) else .na
  product ws := specProduct labelled dims ws
  productIter ws := if labelled then specProduct labelled dims ws else .na
  tryFrom t :=
    if t.rank != dims.length then .na
    else if labelled then specTryLabelled dims t
    else if t.shapeOk dims then firstErr t.flat else .na
  iterWith cells := .ok ((lexList dims).zip cells)
  indexes := (lexList dims, [none, none, none])
  keys := if labelled then .ok (lexList dims, [none, none, none]) else .na
  len := if labelled then .na else .ok (prodDims dims)
  resumeIdx := specResume (lexList dims)
  resumeKeys k := if labelled then .ok (specResume (lexList dims) k) else .na

/-- run a program on the nested model of the kind selected by family / index type / shape -/
def runNested (labelled newtype : Bool) (dims : List Nat) (prog : List Op) : Option (List (List String)) :=
  match labelled, dims with
  | false, [a] => some ((kindU1 a).run prog)
  | false, [a, b] => some ((kindU2 a b).run prog)
  | false, [a, b, c] => some ((kindU3 a b c).run prog)
  | true, [a] => some ((kindL1 newtype a).run prog)
  | true, [a, b] => some ((kindL2 newtype a b).run prog)
  | true, [a, b, c] => some ((kindL3 newtype a b c).run prog)
  | _, _ => none

def runSpec (labelled newtype : Bool) (dims : List Nat) (prog : List Op) : List (List String) :=
  (kindSpec labelled newtype dims).run prog

end SLV.MArr
