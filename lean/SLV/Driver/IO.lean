/-
  Driver plumbing: scalar I/O, cursor over the operand array, outcomes.
-/
import SLV.Num.Floats
import SLV.Model.Bi
import SLV.Model.Prod
namespace SLV
open Scalar

class IOScalar (α : Type) extends Scalar α where
  ofBits : Nat → α
  toBits : α → Nat
  isNaNBits : α → Bool

instance {f : Fmt} : IOScalar (XQ f) where
  ofBits := decodeBits f
  toBits := fun _ => 0
  isNaNBits := XQ.isNaN

instance : IOScalar Float where
  ofBits n := Float.ofBits (UInt64.ofNat n)
  toBits x := x.toBits.toNat
  isNaNBits := Float.isNaN

instance : IOScalar Float32 where
  ofBits n := Float32.ofBits (UInt32.ofNat n)
  toBits x := x.toBits.toNat
  isNaNBits := Float32.isNaN

structure Outcome (α : Type) where
  cls : String
  label : String := ""
  vals : List α := []
  flags : List Bool := []
  tags : List String := []

def Outcome.ok {α} (vals : List α) (flags : List Bool := []) (tags : List String := []) : Outcome α :=
  { cls := "ok", vals, flags, tags }
def Outcome.none' {α} : Outcome α := { cls := "none" }
def Outcome.err {α} (l : Label) (tags : List String := []) : Outcome α :=
  { cls := "err", label := l.toString, tags }
def Outcome.unsupported {α} : Outcome α := { cls := "unsupported" }

/-- cursor over operand scalars -/
abbrev Rd (α : Type) := StateM (Array α × Nat)

variable {α : Type} [Scalar α]

def rdS : Rd α α := do
  let (xs, i) ← get
  set (xs, i + 1)
  return xs.getD i Scalar.zero

def rdTab (n : Nat) : Rd α (Tab α n) := do
  let (xs, i) ← get
  set (xs, i + n)
  return Vector.ofFn fun k : Fin n => xs.getD (i + k.val) Scalar.zero

def rdSimplex (n : Nat) : Rd α (Simplex α n) := do
  let b ← rdTab n
  let u ← rdS
  return ⟨b, u⟩

def rdOpinion (n : Nat) : Rd α (Opinion α n) := do
  let b ← rdTab n
  let u ← rdS
  let a ← rdTab n
  return ⟨b, u, a⟩

def rdCond (n m : Nat) : Rd α (CondTab α n m) := do
  let mut acc : Array (Simplex α m) := #[]
  for _ in [0:n] do
    acc := acc.push (← rdSimplex m)
  return Vector.ofFn fun k : Fin n => acc.getD k.val ⟨Vector.replicate m Scalar.zero, Scalar.zero⟩

def rdBOp : Rd α (BOp α) := do
  let b ← rdS; let d ← rdS; let u ← rdS; let a ← rdS
  return ⟨b, d, u, a⟩

def rdTriple : Rd α (α × α × α) := do
  let b ← rdS; let d ← rdS; let u ← rdS
  return (b, d, u)

def Simplex.flat {n} (s : Simplex α n) : List α := s.b.toList ++ [s.u]
def Opinion.flat {n} (w : Opinion α n) : List α := w.b.toList ++ [w.u] ++ w.a.toList
def BOp.flat (w : BOp α) : List α := [w.b, w.d, w.u, w.a]
def CondTab.flat {n m} (c : CondTab α n m) : List α := c.toList.flatMap Simplex.flat

end SLV
