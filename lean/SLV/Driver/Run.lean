/-
  Dispatch of protocol operations to the model, generic in the scalar semantics.
-/
import SLV.Driver.IO
import SLV.Model.Eq
namespace SLV
open Scalar

/-- the scalar type's default tolerance (`approx`: `default_epsilon` = `default_max_relative` = machine epsilon) -/
class DefaultTol (α : Type) where
  eps : α

instance {f : Fmt} : DefaultTol (XQ f) := ⟨.fin f.eps⟩
instance : DefaultTol Float := ⟨Float.ofBits 0x3CB0000000000000⟩
instance : DefaultTol Float32 := ⟨Float32.ofBits 0x34000000⟩

variable {α : Type} [CmpScalar α] [DefaultTol α]

def fuseOpOfNat : Nat → FuseOp
  | 0 => .acm | 1 => .ecm | 2 => .avg | _ => .wgh

def exceptB (r : Except Label (BOp α)) (tags : List String := []) : Outcome α :=
  match r with
  | .ok w => .ok w.flat [] tags
  | .error l => .err l tags

/-- result of a binomial operator; with the variant token `p` the `projection()` of every operand and of the result follow -/
def exceptBP (r : Except Label (BOp α)) (operands : List (BOp α)) (withP : Bool) (tags : List String := []) : Outcome α :=
  match r with
  | .ok w => .ok (w.flat ++ (if withP then operands.map BOp.projection ++ [w.projection] else [])) [] tags
  | .error l => .err l tags

/-- flags of the checked multinomial constructors: the two predicates of the accepted owner, the same two through each of
    `views` borrowed views (`as_ref()`, `OpinionRef::from(&w)`, `OpinionRef::from((&simplex, &base_rate))`), and for each of `rts`
    round trips of a view back to an owned opinion (`cloned()`, `into_opinion()`) the two predicates and "stores the same numbers" -/
def viewFlags (vac dog : Bool) (views rts : Nat) : List Bool :=
  [vac, dog] ++ (List.replicate views [vac, dog]).flatten ++ (List.replicate rts [vac, dog, true]).flatten

/-- container families with a rank digit (`M2`, `D3`, …): multi-dimensional domains; the model is shape-agnostic (row-major
    flattening, the first int is the total size), the harness appends two container-consistency flags to every `ok` result -/
def isNdVariant (variant : List String) : Bool :=
  let f := variant.getD 0 ""
  f.length == 2 && (f.endsWith "2" || f.endsWith "3")

/-- run one protocol operation against the model -/
def runOp (op : String) (variant : List String) (ints : List Nat) (xs : Array α) : Outcome α :=
  let i0 := ints.getD 0 0
  let i1 := ints.getD 1 0
  let i2 := ints.getD 2 0
  let v2 := variant.getD 2 ""
  let go {β} (r : Rd α β) : β := (r.run (xs, 0)).1
  -- variant token `acc` on deduce / deduce_with / deduce2 / inverse / abduce / abduce_with / merge: the harness appends whether
  -- the crate's own checked constructor accepts the returned value(s); the model's answer is "yes"
  let accT : List Bool := if variant.contains "acc" then [true] else []
  match op with
  | "simplex_new" => go do
      let s ← rdSimplex i0
      match Simplex.tryNew s.b s.u with
      | .ok s => return .ok s.flat (viewFlags s.isVacuous s.isDogmatic 1 1)
      | .error l => return .err l
  | "opinion_new" => go do
      let w ← rdOpinion i0
      if v2 == "up" then
        match Simplex.tryNew w.b w.u with
        | .error l => return .err l
        | .ok s =>
          match s.intoOpinion w.a with
          | .ok w => return .ok w.flat (viewFlags w.isVacuous w.isDogmatic 3 2)
          | .error l => return .err l
      else
        match Opinion.tryNew w.b w.u w.a with
        | .ok w => return .ok w.flat (viewFlags w.isVacuous w.isDogmatic 3 2)
        | .error l => return .err l
  | "bsimplex_new" => go do
      let t ← rdTriple
      match BOp.simplexTryNew t.1 t.2.1 t.2.2 with
      | .ok t => return .ok [t.1, t.2.1, t.2.2]
      | .error l => return .err l
  | "bop_new" => go do
      let w ← rdBOp
      return exceptB (BOp.tryNew w.b w.d w.u w.a)
  | "proj" => go do
      let w ← rdOpinion i0
      return .ok w.projection.toList
  | "maxu" => go do
      let w ← rdOpinion i0
      return .ok [w.simplex.maxUncertainty w.a]
  | "umax" => go do
      let w ← rdOpinion i0
      -- variant token `acc`: two more flags -- the operand is accepted by `Opinion::try_new` (the model's `tryNew`), and
      -- the maximised simplex is accepted by `Simplex::try_new` (expected: always)
      let accFlags : List Bool :=
        if variant.contains "acc" then [(Opinion.tryNew w.b w.u w.a).toBool, true] else []
      return .ok (w.simplex.uncertaintyMaximized w.a).flat accFlags
  | "discount" => go do
      let w ← rdOpinion i0
      let t ← rdS
      if v2 == "s" then return .ok (w.simplex.discount t).flat
      else return .ok (w.discount t).flat
  | "fuse" => go do
      let l ← rdOpinion i0
      let r ← rdOpinion i0
      -- guard-lattice coverage tag: operator / classification of each operand by the model's guards / base-rate path
      let cls (w : Opinion α i0) : String := if w.isDogmatic then "dog" else if w.isVacuous then "vac" else "mid"
      let opn := match fuseOpOfNat i1 with | .acm => "acm" | .ecm => "ecm" | .avg => "avg" | .wgh => "wgh"
      -- `alias`: the harness passes the SAME object twice (second operand's scalars are ignored)
      let alias := variant.contains "alias"
      let r := if alias then l else r
      let tag := opn ++ ":" ++ cls l ++ "-" ++ cls r ++ (if i2 == 1 then ":shared" else "") ++ (if alias then ":alias" else "")
      -- variant token `acc`: three more flags -- both operands AS PASSED (shared: the right simplex over the left base rate)
      -- are accepted by `Opinion::try_new`; the result's simplex is accepted by `Simplex::try_new`; the whole result by
      -- `Opinion::try_new` (expected: always)
      -- (with two different base-rate objects the fused base rate is an un-normalised mixture: the model's own `tryNew` answers)
      let ra := if i2 == 1 then l.a else r.a
      let res := fuse (fuseOpOfNat i1) (i2 == 1 || alias) l r
      let accFlags : List Bool :=
        if variant.contains "acc" then
          [(Opinion.tryNew l.b l.u l.a).toBool && (Opinion.tryNew r.b r.u ra).toBool, true,
            i2 == 1 || alias || (Opinion.tryNew res.b res.u res.a).toBool]
        else []
      return .ok res.flat accFlags [tag]
  | "fuse_os" => go do
      let l ← rdOpinion i0
      let r ← rdSimplex i0
      return .ok (fuseSimplex (fuseOpOfNat i1) l r).flat
  | "fuse_ss" => go do
      let l ← rdSimplex i0
      let r ← rdSimplex i0
      let r := if variant.contains "alias" then l else r
      match fuseSS (fuseOpOfNat i1) l r with
      | some s => return .ok s.flat
      | none => return { cls := "panic", label := "?" }
  | "mbr" => go do
      let ax ← rdTab i0
      let c ← rdCond i0 i1
      match mbr ax c with
      | some ay => return .ok ay.toList
      | none => return .none'
  | "deduce" => go do
      let w ← rdOpinion i0
      let c ← rdCond i0 i1
      -- variant token `acc` (repair 9ec2d8b): one more flag -- the result is accepted by `Opinion::try_new` (expected: always)
      match deduce w c with
      | some r => return .ok r.flat ((if variant.contains "shared" then [true] else []) ++ accT)
      | none => return .none'
  | "deduce_with" => go do
      let w ← rdOpinion i0
      let c ← rdCond i0 i1
      let ay ← rdTab i1
      let r := deduceWith w c (fun _ => ay)
      return .ok r.1.flat ([r.2] ++ (if variant.contains "shared" then [true] else []) ++ accT)
  | "deduce2" => go do
      let n := i0 * i1
      let w ← rdOpinion n
      let c ← rdCond n i2
      let ay ← rdTab i2
      let r := deduceWith w c (fun _ => ay)
      return .ok r.1.flat ([r.2] ++ (if variant.contains "shared" then [true] else []) ++ accT)
  | "inverse" => go do
      let c ← rdCond i0 i1
      let ax ← rdTab i0
      let ay ← rdTab i1
      -- `acc`: every inverted conditional is accepted by `Simplex::try_new` (expected: always)
      return .ok (CondTab.flat (inverse c ax ay)) accT
  | "abduce" => go do
      let s ← rdSimplex i1
      let _aobs ← rdTab (α := α) i1
      let c ← rdCond i0 i1
      let ax ← rdTab i0
      match abduce s c ax with
      | some r => return .ok r.flat accT
      | none => return .none'
  | "abduce_with" => go do
      let s ← rdSimplex i1
      let _aobs ← rdTab (α := α) i1
      let c ← rdCond i0 i1
      let ax ← rdTab i0
      let ay ← rdTab i1
      return .ok (abduceWith s c ax ay).flat accT
  | "prod2" => go do
      let w0 ← rdOpinion i0
      let w1 ← rdOpinion i1
      if variant.getD 0 "" == "M" then
        match product2U w0 w1 with
        | .ok w => return .ok w.flat
        | .error l => return { cls := "panic", label := l.toString }
      else return .ok (product2L w0 w1).flat
  | "prod3" => go do
      let w0 ← rdOpinion i0
      let w1 ← rdOpinion i1
      let w2 ← rdOpinion i2
      if variant.getD 0 "" == "M" then
        match product3U w0 w1 w2 with
        | .ok w => return .ok w.flat
        | .error l => return { cls := "panic", label := l.toString }
      else return .ok (product3L w0 w1 w2).flat
  | "merge" => go do
      let c1 ← rdCond i0 i2
      let c2 ← rdCond i1 i2
      let ax1 ← rdTab i0
      let ax2 ← rdTab i1
      let ay ← rdTab i2
      match mergeCond2 (variant.getD 0 "" == "M" || variant.getD 0 "" == "A") c1 c2 ax1 ax2 ay with
      -- `acc`: every cell of the merged table is accepted by `Simplex::try_new` (expected: always)
      | .ok t => return .ok (CondTab.flat t) accT
      | .error l => return { cls := "panic", label := l.toString }
  | "bproj" => go do
      let w ← rdBOp
      return .ok [w.projection]
  -- binomial operators: variant token `alias` = the harness passes the SAME object twice (y's scalars are ignored),
  -- `p` = the projection() method's answers for the operands and the result are appended
  | "bmul" => go do
      let x ← rdBOp; let y ← rdBOp
      let y := if variant.contains "alias" then x else y
      return exceptBP (x.mul y) [x, y] (variant.contains "p")
  | "bcomul" => go do
      let x ← rdBOp; let y ← rdBOp
      let y := if variant.contains "alias" then x else y
      return exceptBP (x.comul y) [x, y] (variant.contains "p")
  | "bcfuse" => go do
      let x ← rdBOp; let y ← rdBOp
      let y := if variant.contains "alias" then x else y
      return exceptBP (x.cfuse y) [x, y] (variant.contains "p")
  | "bafuse" => go do
      let x ← rdBOp; let y ← rdBOp; let g ← rdS
      let y := if variant.contains "alias" then x else y
      return exceptBP (x.afuse y g) [x, y] (variant.contains "p")
  | "bwfuse" => go do
      let x ← rdBOp; let y ← rdBOp; let g ← rdS
      let y := if variant.contains "alias" then x else y
      return exceptBP (x.wfuse y g) [x, y] (variant.contains "p")
  | "bdeduce" => go do
      let x ← rdBOp; let c0 ← rdTriple; let c1 ← rdTriple; let ay ← rdS
      let r := x.deduce c0 c1 ay
      return exceptBP r.1 [x] (variant.contains "p") [r.2.toString]
  | "btrans_unc" => go do
      let x ← rdBOp; let t ← rdS
      return exceptB (x.transUnc t)
  | "btrans_bsr" => go do
      let x ← rdBOp; let t ← rdS
      return exceptB (x.transBsr t)
  | "btrans_opp" => go do
      let x ← rdBOp; let tb ← rdS; let td ← rdS
      return exceptB (x.transOpp tb td)
  | "blaw" => go do
      let x ← rdBOp; let y ← rdBOp; let z ← rdBOp
      let y := if variant.contains "alias" then x else y
      let bind2 (a : Except Label (BOp α)) (k : BOp α → Except Label (BOp α)) : Except Label (BOp α) :=
        match a with | .ok v => k v | .error e => .error e
      let lr : Except Label (BOp α) × Except Label (BOp α) := match i0 with
        | 0 => (x.mul y, y.mul x)
        | 1 => (bind2 (x.mul y) (fun xy => xy.mul z), bind2 (y.mul z) (fun yz => x.mul yz))
        | 2 => (x.comul y, y.comul x)
        | 3 => (bind2 (x.comul y) (fun xy => xy.comul z), bind2 (y.comul z) (fun yz => x.comul yz))
        | 4 => (x.neg.comul y.neg, bind2 (x.mul y) (fun r => .ok r.neg))
        | _ => (x.neg.mul y.neg, bind2 (x.comul y) (fun r => .ok r.neg))
      match lr.1, lr.2 with
      | .ok l, .ok r => return .ok (l.flat ++ r.flat)
      | .error e, _ => return .err e
      | _, .error e => return .err e
  | "bdeduce_sym" => go do
      let x ← rdBOp; let c0 ← rdTriple; let c1 ← rdTriple; let ay ← rdS
      let sw (c : α × α × α) : α × α × α := (c.2.1, c.1, c.2.2)
      let lr : Except Label (BOp α) × Except Label (BOp α) :=
        if i0 == 0 then ((x.deduce c0 c1 ay).1, (x.neg.deduce c1 c0 ay).1)
        else ((match (x.deduce c0 c1 ay).1 with | .ok r => .ok r.neg | .error e => .error e),
              (x.deduce (sw c0) (sw c1) (Scalar.one - ay)).1)
      match lr.1, lr.2 with
      | .ok l, .ok r => return .ok (l.flat ++ r.flat)
      | .error e, _ => return .err e
      | _, .error e => return .err e
  | "fuse_fold" => go do
      let n := i0
      let fop := fuseOpOfNat i1
      let k := i2
      let style := ints.getD 3 0
      let perm := (ints.drop 4).take k
      let mut ws : Array (Opinion α n) := #[]
      for _ in [0:k] do
        ws := ws.push (← rdOpinion n)
      let dflt : Opinion α n := ⟨Vector.replicate n Scalar.zero, Scalar.zero, Vector.replicate n Scalar.zero⟩
      let w (j : Nat) : Opinion α n := ws.getD (perm.getD j 0) dflt
      if k == 0 then return .unsupported
      if variant.contains "alias" then
        -- every step fuses the accumulator with the same object w[p0]; the first step is fuse(&w, &w)
        let w0 := w 0
        if k == 1 then return .ok w0.flat
        let mut acc := fuse fop true w0 w0
        for _ in [2:k] do
          acc := if style == 3 then fuse fop false w0 acc else fuse fop false acc w0
        return .ok acc.flat
      if style == 3 then
        -- right-nested grouping
        let rec nest (js : List Nat) (fuel : Nat) : Opinion α n :=
          match fuel, js with
          | _, [] => dflt
          | _, [j] => ws.getD j dflt
          | 0, _ => dflt
          | fuel + 1, j :: rest => fuse fop false (ws.getD j dflt) (nest rest fuel)
        return .ok (nest perm k).flat
      else if style == 0 && variant.contains "shared" then
        let a := (ws.getD 0 dflt).a
        let wa (j : Nat) : Opinion α n := Opinion.mk' (w j).simplex a
        if k == 1 then return .ok (wa 0).flat
        let mut acc := fuse fop true (wa 0) (wa 1)
        for j in [2:k] do
          acc := fuse fop false acc (wa j)
        return .ok acc.flat
      else
        let mut acc := w 0
        for j in [1:k] do
          acc := fuse fop false acc (w j)
        return .ok acc.flat
  | "discount_chain" => go do
      let w ← rdOpinion i0
      let mut ts : Array α := #[]
      for _ in [0:i1] do
        ts := ts.push (← rdS)
      if v2 == "s" then
        return .ok (ts.foldl (fun (s : Simplex α i0) t => s.discount t) w.simplex).flat
      else
        return .ok (ts.foldl (fun (o : Opinion α i0) t => o.discount t) w).flat
  | "bvs" => go do
      let x ← rdBOp; let y ← rdBOp; let g ← rdS
      let y := if variant.contains "alias" then x else y
      let (l, fop) : Except Label (BOp α) × FuseOp := match i0 with
        | 0 => (x.cfuse y, .acm)
        | 1 => (x.afuse y g, .avg)
        | _ => (x.wfuse y g, .wgh)
      let r := BOp.ofOpinion (fuse fop (variant.contains "alias") x.toOpinion y.toOpinion)
      match l with
      | .ok lv => return .ok (lv.flat ++ r.flat)
      | .error e => return { cls := "err", label := e.toString, vals := r.flat }
  -- left fold of a binomial fusion operator over k operands; variant token `vs`: followed by the multinomial fold of the
  -- converted operands, converted back; a failing step j is reported as `err` with tag `step=j`
  | "bfold" => go do
      let kind := i0
      let k := i1
      let mut ws : Array (BOp α) := #[]
      for _ in [0:k] do
        ws := ws.push (← rdBOp)
      let g ← (if kind == 0 then pure Scalar.zero else rdS)
      if k == 0 then return .unsupported
      let dflt : BOp α := ⟨Scalar.zero, Scalar.zero, Scalar.zero, Scalar.zero⟩
      let w (j : Nat) : BOp α := ws.getD j dflt
      let step (x y : BOp α) : Except Label (BOp α) := match kind with
        | 0 => x.cfuse y
        | 1 => x.afuse y g
        | _ => x.wfuse y g
      let fop : FuseOp := match kind with | 0 => .acm | 1 => .avg | _ => .wgh
      let mut rv : List α := []
      if variant.contains "vs" then
        let mut macc := (w 0).toOpinion
        for j in [1:k] do
          macc := fuse fop false macc (w j).toOpinion
        rv := (BOp.ofOpinion macc).flat
      let mut acc := w 0
      let mut failed : Option (Label × Nat) := none
      for j in [1:k] do
        if failed.isNone then
          match step acc (w j) with
          | .ok r => acc := r
          | .error e => failed := some (e, j)
      match failed with
      | none => return .ok (acc.flat ++ rv)
      | some (e, j) => return { cls := "err", label := e.toString, vals := rv, tags := [s!"step={j}"] }
  | "bcmp" => go do
      let x ← rdBOp; let y ← rdBOp; let eps ← rdS; let maxRel ← rdS
      return .ok [] [Cmp.bopCmp i0 eps maxRel i1 x y]
  | "bcmpc" => go do
      let x ← rdBOp; let y ← rdBOp; let eps ← rdS; let maxRel ← rdS
      let c := Cmp.scalarCmp i0 eps maxRel i1
      return .ok [] [Cmp.bopCmp i0 eps maxRel i1 x y, c x.b y.b, c x.d y.d, c x.u y.u, c x.a y.a]
  | "meq" => go do
      let n := if ints.length ≥ 2 then i0 * i1 else i0
      let x ← rdOpinion n
      let y ← rdOpinion n
      return .ok [] [Cmp.simplexEq x.simplex y.simplex, Cmp.opinionEq x y]
  | "bconv" => go do
      let x ← rdBOp
      let w := x.toOpinion
      return .ok (w.flat ++ (BOp.ofOpinion w).flat)
  | "bconv_all" => go do
      -- every conversion path: from / into, back by value (from, into) and by reference (from, into), the simplex view,
      -- a second trip, and the projections (binomial method, multinomial trait on the converted opinion, method on the way back)
      let x ← rdBOp
      let w := x.toOpinion
      let back := BOp.ofOpinion w
      return .ok (w.flat ++ w.flat ++ back.flat ++ back.flat ++ back.flat ++ back.flat ++ [x.b, x.d, x.u]
        ++ back.toOpinion.flat ++ [x.projection] ++ w.projection.toList ++ [back.projection])
  | "bcmpd" => go do
      -- approx's macros with arguments left out: epsilon / max_relative default to machine epsilon, max_ulps to 4
      let x ← rdBOp; let y ← rdBOp; let t ← rdS
      let e : α := DefaultTol.eps
      let (kind, eps, maxRel, maxUlps) : Nat × α × α × Nat := match i0 with
        | 1 => (1, e, e, 4)
        | 2 => (2, e, e, 4)
        | 3 => (3, e, e, 4)
        | 4 => (2, e, t, 4)
        | 5 => (3, e, e, i1)
        | 6 => (2, t, e, 4)
        | _ => (3, t, e, 4)
      if i0 == 0 || i0 > 7 then return .unsupported
      let c := Cmp.scalarCmp kind eps maxRel maxUlps
      return .ok [] [Cmp.bopCmp kind eps maxRel maxUlps x y, c x.b y.b, c x.d y.d, c x.u y.u, c x.a y.a]
  | "meq_alias" => go do
      -- an opinion compared with ITSELF (same object): cell-wise IEEE `==`, so false as soon as a cell is NaN
      let n := if ints.length ≥ 2 then i0 * i1 else i0
      let x ← rdOpinion n
      let o := Cmp.opinionEq x x
      return .ok [] [Cmp.simplexEq x.simplex x.simplex, o, o, Cmp.tabEq x.a x.a, o]
  | _ => .unsupported

/-- `runOp` for every container family: the multi-dimensional ones (`isNdVariant`) carry two more flags on `ok` results
    (`it`: iteration order = index order, `eq`: the result equals an independently built container) -/
def runOpV (op : String) (variant : List String) (ints : List Nat) (xs : Array α) : Outcome α :=
  let r := runOp op variant ints xs
  if isNdVariant variant && r.cls == "ok" then { r with flags := r.flags ++ [true, true] } else r

/-- which ops report a model `err` as a panic of the implementation (`new(..)`/`unwrap()`) -/
def errIsPanic (op : String) (variant : List String) : Bool :=
  let v2 := variant.getD 2 ""
  match op with
  | "simplex_new" | "opinion_new" | "bsimplex_new" | "bop_new" => v2 == "new"
  | "bmul" | "bcomul" | "bdeduce" | "btrans_unc" | "btrans_bsr" | "btrans_opp" | "blaw" | "bdeduce_sym" => true
  | _ => false

end SLV
