import SLV.Num.Scalar
import SLV.Num.XQ
import SLV.Num.Floats
