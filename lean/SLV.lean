import SLV.Num.Scalar
import SLV.Num.XQ
import SLV.Num.Floats
import SLV.Model.MArr
import SLV.Model.MArrProg
