#!/usr/bin/env python3
"""
rs2lean.py -- regenerate Lean definitions from the Rust source text of the crate.

  rs2lean.py --src /repo/src --out /verif/lean/SLV/Gen [--only bi|mul] [--validate]

PARSES (tokenizer + recursive-descent parser, below) the bodies of the arithmetic functions and prints one Lean `def`
per Rust function into
  <out>/Bi.lean   (namespace SLV.Gen)      from  approx_ext.rs, errors.rs, bi.rs, convert.rs
  <out>/Mul.lean  (namespace SLV.Gen.Mul)  from  mul.rs, mul/non_labeled.rs, mul/labeled.rs,
                                                 multi_array/non_labeled.rs, multi_array/labeled.rs (only `==`, see below)
The hand-written files SLV/Gen/BiTie.lean and SLV/Gen/MulTie.lean prove (kernel-checked) that every generated
definition equals the hand-written model (theorem gen_<lean name>_eq); an edit of any expression in the Rust text
changes the generated term and the corresponding theorem stops checking.

Exit status: 0 everything translated;  3 files written WITH HOLES: a function that cannot be translated (syntax outside
the subset, a call of a generated function that is itself a hole, a failed convention guard of its source file, or --
with --validate -- a generated definition that Lean rejects) gets no definition but a line
`-- UNTRANSLATABLE <file> fn <name>: <reason>` (also on stderr, prefixed `rs2lean: `), so that exactly its tie theorem
and the ties depending on it fail;  2 an output file could not be written at all (source missing, item scanner lost).

Parsed Rust subset (sections 1-3; a general expression/statement parser; regexes are used only
on TYPE texts -- impl headers, parameter types, where clauses -- never on a formula):
  items      fn inside impl / macro_rules bodies (`$ft`), generic parameters, where clauses (skipped as types)
  statements `let [mut] x [: T] [= e];`  `let x;` + later `x = e;`  `x = e;` `x += e;` `x /= e;` `p[i] /= e;`
             `e;`  `e?;`  `e.unwrap();`  `for i in T::indexes() { .. }`  `if c { return e; }`  if / else-if / else
             with assignments, tail expressions
  expressions float literals 0.0 1.0 2.0, + - * /, unary - ! * &, comparisons, && ||, parentheses, tuples, arrays,
             paths with turbofish / `<V>::min`, field access, `.0`, method calls, calls, indexing, `?`, closures
             `|i| e` `|(x, &a)| e` `|&b| e` `|_| e`, blocks, `if` as a value, `match` on Boolean tuples with
             or-patterns / bindings / `_` and a guarded CATCH-ALL arm (`_ if g => e` / `(_, _) if g => e`, rendered as
             `| _, _ => if g then e else (match <same scrutinee> with <following arms>)`; any other guard there is
             refused), `match op { A | B if g => e, .. }`, struct literals, macros
             `ulps_eq!(a, b)` `matches!(x, P)`, `return`
What the back ends (sections 5-6) accept of it is narrower and strict: every construct they do not know makes the
function a hole (`UNTRANSLATABLE <file> fn <name>: unsupported <construct>`, exit status 3: exactly its tie breaks,
which is the intended outcome).  Section 7 pins the accessors that are translated by convention.
Iterator values in the mul back end (labelled Product2/3 since repair abca806): `let r = izip!(t, a).map(|(&b, &a)| e);` binds a
lazily mapped zip of tables (kind "It": generated as the table of its items `Vector.ofFn fun k => e`, the closures of the subset
being pure scalar arithmetic), which only `iproduct!(r0, r1[, r2])` inside `izip!(.., &a)` may consume: row-major like
`product2_iter`, FLAT item tuples, item of flat index k = entries (idxN k).j of the factors, closure patterns `|((r0, r1), _)|` /
`|(_, &a)|`;  `let (x, y) = (e, f);` is rendered as consecutive `let`s (refused when a component mentions a bound name).

Comparisons (property C20; section 5b; model SLV/Model/Eq.lean; the definitions take `[CmpScalar α]`):
  * BOpinion_abs_diff_eq / BOpinion_relative_eq / BOpinion_ulps_eq  (Bi.lean; ties gen_BOpinion_{abs_diff_eq,relative_eq,
    ulps_eq}_eq): the bodies of `impl AbsDiffEq / RelativeEq / UlpsEq for BOpinion<$ft>` inside `impl_bop!` are
    TRANSLATED (CmpEmit): on a scalar receiver `r.abs_diff_eq(s, e)` ↦ `Cmp.absDiffEq r s e`, `r.relative_eq(s, e, m)` ↦
    `Cmp.relativeEq r s e m`, `r.ulps_eq(s, e, k)` ↦ `Cmp.ulpsEq r s e k` (argument order preserved), `&&` / `||` / `let`
    as everywhere; `other` ↦ y, `Self::Epsilon` ↦ α, `u32` ↦ Nat.  `default_epsilon`, `default_max_relative`,
    `default_max_ulps` (`<$ft as Trait>::default_..()`) and `type Epsilon = <$ft as AbsDiffEq>::Epsilon;` are TEXT PINS:
    guard groups bop_cmp_epsilon (named by all three targets), bop_cmp_max_relative, bop_cmp_max_ulps.
  * eq_BSimplex, eq_BOpinion (Bi.lean), eq_Simplex, eq_OpinionBase, eq_MArr1/2/3, eq_MArrD1/2/3 (Mul.lean; ties
    gen_eq_<Type>_eq): MARKER definitions of `==` (EqEmit).  Derived `==`: the definition is the `&&`, in declaration
    order, of the `==` of the struct's fields (field list read from the source; spec["fields"] gives the Lean text per
    `(field, type)`, an unknown field is refused), under the guard that the attribute line in front of the struct is
    still `#[derive(.. PartialEq ..)]` and the file contains no hand-written `impl .. PartialEq .. for <Type>`.
    Hand-written `==` (`impl cmp::PartialEq for MArrD{1,2,3}`): the body of `fn eq` must be `self.inner == other.inner`
    (generally: a `&&` of `self.f == other.f` over every field that is not a zero-sized marker), no `fn ne`.  A nested
    container's `==` relies on the inner type's (spec["needs"], or a call of the inner marker): MArr1 -> MArr2 -> MArr3,
    MArrD1 -> MArrD2 -> MArrD3, Simplex -> OpinionBase, (mul.rs Simplex, Simplex1d alias) -> BSimplex -> BOpinion.
    A violated guard is reported like every hole (`UNTRANSLATABLE <file> fn eq_<Type>: convention guard: ..`, exit 3):
    the marker has no definition and gen_eq_<Type>_eq (and the dependent ones) fail with an unknown identifier.
python3 standard library only.
"""
import sys, os, re, hashlib, argparse


class Unsupported(Exception):
    pass


# ------------------------------------------------------------------------------------------------
# 1. tokenizer
# ------------------------------------------------------------------------------------------------
PUNCT3 = ["..=", "<<=", ">>=", "..."]
PUNCT2 = ["::", "->", "=>", "==", "!=", "<=", ">=", "&&", "||", "+=", "-=", "*=", "/=", ".."]
TOKEN_RE = re.compile(r"""
    (?P<ws>\s+)
  | (?P<lc>//[^\n]*)
  | (?P<bc>/\*.*?\*/)
  | (?P<float>\d+\.\d+(?:[eE][+-]?\d+)?(?:_?f(?:32|64))?)
  | (?P<int>\d+(?:_?[iu](?:8|16|32|64|size))?)
  | (?P<str>"(?:[^"\\]|\\.)*")
  | (?P<life>'[A-Za-z_][A-Za-z0-9_]*(?!'))
  | (?P<chr>'(?:[^'\\]|\\.)')
  | (?P<id>\$?[A-Za-z_][A-Za-z0-9_]*)
  | (?P<p>\.\.=|\.\.\.|::|->|=>|==|!=|<=|>=|&&|\|\||\+=|-=|\*=|/=|\.\.|[-+*/%=<>!&|.,;:(){}\[\]#?@$^~])
""", re.X | re.S)


class Tok:
    __slots__ = ("k", "v", "pos", "line")

    def __init__(self, k, v, pos, line):
        self.k, self.v, self.pos, self.line = k, v, pos, line

    def __repr__(self):
        return "%s:%r@%d" % (self.k, self.v, self.line)


def tokenize(text, fname):
    toks, i, line = [], 0, 1
    n = len(text)
    while i < n:
        m = TOKEN_RE.match(text, i)
        if not m:
            raise Unsupported("%s:%d: cannot tokenize %r" % (fname, line, text[i:i + 20]))
        k = m.lastgroup
        v = m.group(k)
        if k not in ("ws", "lc", "bc"):
            toks.append(Tok(k, v, i, line))
        line += v.count("\n")
        i = m.end()
    toks.append(Tok("eof", "", n, line))
    return toks


# ------------------------------------------------------------------------------------------------
# 2. AST (plain tuples: (kind, ...)) and the recursive-descent parser
# ------------------------------------------------------------------------------------------------
#  expressions
#   ("num", text)                      float / int literal
#   ("str", text)
#   ("path", [seg, ...])               a::b::c   (generic arguments dropped; `<V>::min` -> ["<V>", "min"])
#   ("un", op, e)                      op in - ! * &
#   ("bin", op, l, r)
#   ("field", e, name)                 e.name   /  e.0
#   ("mcall", e, name, [args])         e.name(args)      (turbofish dropped)
#   ("call", f, [args])                f(args)
#   ("index", e, i)
#   ("try", e)                         e?
#   ("tuple", [e...])                  (a, b)   ; ("paren", e) for (a)
#   ("array", [e...])
#   ("if", cond, block, else)          else: None | block | ("if", ...)
#   ("match", scrut, [(pats, guard, expr)])     pats: list of alternatives
#   ("block", [stmts], tail)           tail: expr | None
#   ("closure", [pats], body, [types])  types: per parameter the type text, None when not annotated
#   ("macro", name, [args])            name!(args)  (args parsed as expressions)
#   ("struct", path, [(field, e)])
#   ("return", e|None)
#  statements
#   ("let", pat, init|None)            pat: see patterns
#   ("expr", e)                        e;
#   ("assign", op, lhs, rhs)           op in = += -= *= /=
#   ("for", pat, iter, block)
#   ("ifs", ifexpr)  ("matchs", matchexpr)      block-like expression used as a statement
#  patterns
#   ("pid", name)  ("pwild",)  ("plit", text)  ("ptuple", [p...])  ("ppath", [seg...])  ("pref", p)

BINPREC = [["||"], ["&&"], ["==", "!=", "<", ">", "<=", ">="], ["+", "-"], ["*", "/", "%"]]


class Parser:
    def __init__(self, toks, fname, fn="?"):
        self.t, self.i, self.fname, self.fn = toks, 0, fname, fn

    # -- helpers
    def peek(self, o=0):
        return self.t[min(self.i + o, len(self.t) - 1)]

    def at(self, v, o=0):
        return self.peek(o).v == v and self.peek(o).k in ("p", "id")

    def next(self):
        tk = self.t[self.i]
        self.i += 1
        return tk

    def fail(self, what):
        tk = self.peek()
        raise Unsupported("%s: fn %s: line %d: unsupported %s (at %r)" % (self.fname, self.fn, tk.line, what, tk.v))

    def expect(self, v):
        if not self.at(v):
            self.fail("syntax, expected %r" % v)
        return self.next()

    def ident(self):
        if self.peek().k != "id":
            self.fail("syntax, expected identifier")
        return self.next().v

    def skip_angles(self):
        """skip a balanced <...> group (generic arguments / a type)"""
        self.expect("<")
        d = 1
        while d:
            tk = self.next()
            if tk.k == "eof":
                self.fail("unbalanced <>")
            if tk.v == "<":
                d += 1
            elif tk.v == ">":
                d -= 1
            elif tk.v == "->":
                pass
        return

    def skip_type(self, stops):
        """skip a type up to one of `stops` at nesting depth 0; returns the token texts"""
        d, out = 0, []
        while True:
            tk = self.peek()
            if tk.k == "eof":
                self.fail("type")
            if d == 0 and tk.v in stops and tk.k == "p":
                return out
            if tk.v in ("<", "(", "["):
                d += 1
            elif tk.v in (">", ")", "]"):
                d -= 1
            out.append(tk.v + (" " if tk.k == "life" else ""))
            self.next()

    # -- patterns
    def pattern(self):
        tk = self.peek()
        if self.at("&"):
            self.next()
            if self.at("mut"):
                self.next()
            return ("pref", self.pattern())
        if self.at("("):
            self.next()
            ps = []
            while not self.at(")"):
                ps.append(self.pattern())
                if self.at(","):
                    self.next()
            self.next()
            return ("ptuple", ps)
        if self.at("["):
            self.next()
            ps = []
            while not self.at("]"):
                if self.at(".."):
                    self.next()
                    ps.append(("prest",))
                else:
                    ps.append(self.pattern())
                if self.at(","):
                    self.next()
            self.next()
            return ("pslice", ps)
        if tk.k in ("float", "int"):
            return ("plit", self.next().v)
        if tk.k == "id":
            if tk.v == "_":
                self.next()
                return ("pwild",)
            if tk.v in ("true", "false"):
                return ("plit", self.next().v)
            if tk.v == "mut":
                self.next()
                return ("pid", self.ident(), True)
            segs = [self.ident()]
            while self.at("::"):
                self.next()
                segs.append(self.ident())
            if len(segs) == 1 and not self.at("(") and (not self.at("{") or not segs[0][:1].isupper()):
                return ("pid", segs[0])
            if self.at("{"):
                self.next()
                fields, rest_ = [], False
                while not self.at("}"):
                    if self.at(".."):
                        self.next()
                        rest_ = True
                    else:
                        f = self.ident()
                        sub = None
                        if self.at(":"):
                            self.next()
                            sub = self.pattern()
                        fields.append((f, sub))
                    if self.at(","):
                        self.next()
                self.next()
                return ("pstruct", segs, fields, rest_)
            if self.at("("):
                self.fail("tuple-struct pattern")
            return ("ppath", segs)
        self.fail("pattern")

    # -- expressions
    def expr(self, nostruct=False):
        return self.binary(0, nostruct)

    def binary(self, lvl, nostruct):
        if lvl == len(BINPREC):
            return self.unary(nostruct)
        l = self.binary(lvl + 1, nostruct)
        while self.peek().k == "p" and self.peek().v in BINPREC[lvl]:
            # a closure's closing `|` never reaches here: closures parse their own parameter list
            op = self.next().v
            r = self.binary(lvl + 1, nostruct)
            if lvl == 2 and self.peek().k == "p" and self.peek().v in BINPREC[2]:
                self.fail("chained comparison")
            l = ("bin", op, l, r)
        return l

    def unary(self, nostruct):
        if self.peek().k == "p" and self.peek().v in ("-", "!", "*", "&"):
            op = self.next().v
            if op == "&" and self.at("mut"):
                self.next()
            return ("un", op, self.unary(nostruct))
        if self.at("&&"):
            self.fail("double reference")
        return self.postfix(self.primary(nostruct), nostruct)

    def args(self, close=")"):
        out = []
        while not self.at(close):
            out.append(self.expr())
            if self.at(","):
                self.next()
            elif not self.at(close):
                self.fail("argument list")
        self.next()
        return out

    def postfix(self, e, nostruct):
        while True:
            if self.at("."):
                self.next()
                tk = self.next()
                if tk.k == "int":
                    e = ("field", e, tk.v)
                    continue
                if tk.k == "float":            # x.0.1 tokenizes as float
                    for part in tk.v.split("."):
                        e = ("field", e, part)
                    continue
                if tk.k != "id":
                    self.fail("postfix after '.'")
                name = tk.v
                if name == "await":
                    self.fail(".await")
                if self.at("::"):
                    self.next()
                    self.skip_angles()
                if self.at("("):
                    self.next()
                    e = ("mcall", e, name, self.args())
                else:
                    e = ("field", e, name)
            elif self.at("("):
                self.next()
                e = ("call", e, self.args())
            elif self.at("["):
                self.next()
                ix = self.expr()
                self.expect("]")
                e = ("index", e, ix)
            elif self.at("?"):
                self.next()
                e = ("try", e)
            else:
                return e

    def path(self):
        segs = []
        if self.at("<"):
            d0 = self.i
            self.skip_angles()
            segs.append("".join(tk.v for tk in self.t[d0:self.i]))
            self.expect("::")
        segs.append(self.ident())
        while self.at("::"):
            self.next()
            if self.at("<"):
                self.skip_angles()
            else:
                segs.append(self.ident())
        return segs

    def primary(self, nostruct):
        tk = self.peek()
        if tk.k in ("float", "int"):
            return ("num", self.next().v)
        if tk.k == "str":
            return ("str", self.next().v)
        if self.at("("):
            self.next()
            if self.at(")"):
                self.next()
                return ("tuple", [])
            first = self.expr()
            if self.at(")"):
                self.next()
                return ("paren", first)
            es = [first]
            while self.at(","):
                self.next()
                if self.at(")"):
                    break
                es.append(self.expr())
            self.expect(")")
            return ("tuple", es)
        if self.at("["):
            self.next()
            return ("array", self.args("]"))
        if self.at("{"):
            return self.block()
        if self.at("|") or self.at("||"):
            return self.closure()
        if self.at("move"):
            self.next()
            return self.closure()
        if self.at("if"):
            return self.ifexpr()
        if self.at("match"):
            return self.matchexpr()
        if self.at("return"):
            self.next()
            if self.at(";") or self.at("}"):
                return ("return", None)
            return ("return", self.expr())
        if tk.k == "id" and tk.v in ("loop", "while", "for", "unsafe", "async", "break", "continue", "let"):
            self.fail("`%s` expression" % tk.v)
        if tk.k == "id" or self.at("<"):
            segs = self.path()
            if self.at("!"):
                if self.peek(1).v in ("(", "[", "{"):
                    self.next()
                    op = self.next().v
                    close = {"(": ")", "[": "]", "{": "}"}[op]
                    return ("macro", "::".join(segs), self.args(close))
            if self.at("{") and not nostruct and segs[-1][:1].isupper():
                self.next()
                fields = []
                while not self.at("}"):
                    if self.at(".."):
                        self.fail("struct update syntax")
                    f = self.ident()
                    if self.at(":"):
                        self.next()
                        v = self.expr()
                    else:
                        v = ("path", [f])
                    fields.append((f, v))
                    if self.at(","):
                        self.next()
                self.next()
                return ("struct", segs, fields)
            return ("path", segs)
        self.fail("expression")

    def closure(self):
        pats, tys = [], []
        if self.at("||"):
            self.next()
        else:
            self.expect("|")
            while not self.at("|"):
                pats.append(self.pattern())
                tys.append(None)
                if self.at(":"):
                    self.next()
                    tys[-1] = "".join(self.skip_type([",", "|"])).strip()
                if self.at(","):
                    self.next()
            self.next()
        if self.at("->"):
            self.fail("closure return type")
        return ("closure", pats, self.expr(), tys)

    def ifexpr(self):
        self.expect("if")
        if self.at("let"):
            self.fail("`if let`")
        c = self.expr(nostruct=True)
        th = self.block()
        el = None
        if self.at("else"):
            self.next()
            el = self.ifexpr() if self.at("if") else self.block()
        return ("if", c, th, el)

    def matchexpr(self):
        self.expect("match")
        s = self.expr(nostruct=True)
        self.expect("{")
        arms = []
        while not self.at("}"):
            if self.at("|"):
                self.next()
            pats = [self.pattern()]
            while self.at("|"):
                self.next()
                pats.append(self.pattern())
            guard = None
            if self.at("if"):
                self.next()
                guard = self.expr()
            self.expect("=>")
            # a block-like arm body ends the arm (no postfix / binary continuation), as in Rust
            body = self.block() if self.at("{") else self.expr()
            arms.append((pats, guard, body))
            if self.at(","):
                self.next()
            elif not self.at("}") and body[0] != "block":
                self.fail("match arm separator")
        self.next()
        return ("match", s, arms)

    def block(self):
        self.expect("{")
        stmts, tail = [], None
        while not self.at("}"):
            if self.at(";"):
                self.next()
                continue
            if self.at("#"):
                # `#[cfg(subjective_logic_verif)] stmt` : verification instrumentation that is compiled out of normal
                # builds (the cfg is only set by the verification harness); the statement is dropped.
                want = ["#", "[", "cfg", "(", "subjective_logic_verif", ")", "]"]
                if [self.peek(o).v for o in range(7)] != want:
                    self.fail("attribute inside a body")
                for _ in want:
                    self.next()
                e = self.expr()
                self.expect(";")
                continue
            if self.at("let"):
                self.next()
                p = self.pattern()
                if self.at(":"):
                    self.next()
                    self.skip_type(["=", ";"])
                init = None
                if self.at("="):
                    self.next()
                    init = self.expr()
                if self.at("else"):
                    self.fail("let-else")
                self.expect(";")
                stmts.append(("let", p, init))
                continue
            if self.at("for"):
                self.next()
                p = self.pattern()
                self.expect("in")
                it = self.expr(nostruct=True)
                stmts.append(("for", p, it, self.block()))
                continue
            if self.peek().k == "id" and self.peek().v in ("fn", "struct", "impl", "use", "const", "static", "type"):
                self.fail("nested item `%s`" % self.peek().v)
            if self.at("if") or self.at("match"):
                # block-like expression in statement position: it is a whole statement (or the tail)
                e = self.ifexpr() if self.at("if") else self.matchexpr()
                if self.at("."):
                    self.fail("method call on a block-like expression")
            else:
                e = self.expr()
            if self.peek().k == "p" and self.peek().v in ("=", "+=", "-=", "*=", "/="):
                op = self.next().v
                r = self.expr()
                self.expect(";")
                stmts.append(("assign", op, e, r))
                continue
            if self.at(";"):
                self.next()
                stmts.append(("expr", e))
            elif self.at("}"):
                tail = e
            elif e[0] == "if":
                stmts.append(("ifs", e))
            elif e[0] == "match":
                stmts.append(("matchs", e))
            elif e[0] == "block":
                self.fail("nested block statement")
            else:
                self.fail("statement terminator")
        self.next()
        return ("block", stmts, tail)


# ------------------------------------------------------------------------------------------------
# 3. item scanner: find `fn` items together with the header of the enclosing impl / macro
# ------------------------------------------------------------------------------------------------
class FnItem:
    def __init__(self, name, ctx, params, ret, lazy, span, fname):
        self.name, self.ctx, self.params, self.ret, self.lazy, self.span, self.fname = \
            name, ctx, params, ret, lazy, span, fname
        self._body = None

    def body_text(self):
        """the body as its token sequence (insensitive to white space and comments)"""
        return " ".join(t.v for t in self.lazy[0][self.lazy[1]:self.lazy[2]])

    @property
    def body(self):
        if self._body is None:
            p = Parser(self.lazy[0], self.fname, self.name)
            p.i = self.lazy[1]
            self._body = p.block()
        return self._body


def scan_items(text, fname):
    """returns the list of FnItem of a file (functions without a body, e.g. in traits, are skipped)"""
    toks = tokenize(text, fname)
    items = []
    stack = []          # (header text | None) per open brace
    i = 0
    hdr_start = 0       # token index where the current item header started
    while toks[i].k != "eof":
        tk = toks[i]
        if tk.k == "id" and tk.v == "fn" and toks[i + 1].k == "id":
            try:
                name = toks[i + 1].v
                ctx = " | ".join(h for h in stack if h)
                p = Parser(toks, fname, name)
                p.i = i + 2
                if p.at("<"):
                    p.skip_angles()
                p.expect("(")
                params = []
                while not p.at(")"):
                    if p.at("&"):
                        p.next()
                        if p.peek().k == "life":
                            p.next()
                    pmut = False
                    if p.at("mut"):
                        p.next()
                        pmut = True
                    if p.at("self"):
                        p.next()
                        params.append(("self", "Self"))
                    else:
                        try:
                            pat = p.pattern()
                            if p.at("@"):
                                raise Unsupported("binding pattern")
                        except Unsupported:
                            # a parameter pattern outside the subset (only matters if this function is translated or
                            # guarded: then `("p?",)` is refused there); skip to the `:` of the parameter
                            d_ = 0
                            while not (d_ == 0 and p.at(":")):
                                v_ = p.next()
                                if v_.k == "eof":
                                    p.fail("parameter list")
                                d_ += {"(": 1, "[": 1, "{": 1, ")": -1, "]": -1, "}": -1}.get(v_.v, 0) if v_.k == "p" else 0
                            pat = ("p?",)
                        if pmut and pat[0] == "pid":
                            pat = ("pid", pat[1], True)
                        p.expect(":")
                        ty = "".join(p.skip_type([",", ")"]))
                        params.append((pat, ty))
                    if p.at(","):
                        p.next()
                p.next()
                ret = ""
                if p.at("->"):
                    p.next()
                    ret = "".join(p.skip_type(["{", ";"]) if not _has_where(p) else _skip_to_where(p))
                where = ""
                if p.at("where"):
                    where = " ".join(p.skip_type(["{", ";"]))
                if p.at(";"):
                    i = p.i + 1
                    continue
                b0 = p.i
                p.expect("{")
                d = 1
                while d:                      # bodies are parsed lazily (only those that are translated)
                    v = p.next()
                    if v.k == "eof":
                        p.fail("unbalanced braces")
                    if v.k == "p" and v.v == "{":
                        d += 1
                    elif v.k == "p" and v.v == "}":
                        d -= 1
                span = (toks[i].pos, toks[p.i - 1].pos + 1)
                items.append(FnItem(name, ctx, params, ret, (toks, b0, p.i), span, fname))
                items[-1].where = where
                i = p.i
                hdr_start = i
                continue
            except Unsupported:
                # a signature outside the subset (macro repetitions `$(..)*`, exotic patterns): the function is not
                # registered; a target or guard that needs it then reports "found 0 definitions"
                i += 1
                continue
        if tk.v == "{" and tk.k == "p":
            hdr = " ".join(t.v for t in toks[hdr_start:i])
            keep = hdr if re.match(r"(pub )?(impl|macro_rules|trait|mod)\b", hdr) else None
            if keep is None and stack and hdr.startswith("( $"):
                keep = None
            stack.append(keep)
            hdr_start = i + 1
        elif tk.v == "}" and tk.k == "p":
            if stack:
                stack.pop()
            hdr_start = i + 1
        elif tk.v == ";" and tk.k == "p":
            # `;` inside brackets (`[V; D0]` in an impl header) does not end an item
            depth = 0
            for t_ in toks[hdr_start:i]:
                if t_.k == "p":
                    depth += {"[": 1, "(": 1, "]": -1, ")": -1}.get(t_.v, 0)
            if depth <= 0:
                hdr_start = i + 1
        elif tk.v == "]" and toks[hdr_start].v == "#":
            hdr_start = i + 1      # attribute finished
        i += 1
    return items


def _has_where(p):
    """is there a `where` before the body brace of the current signature?"""
    j, d = p.i, 0
    while p.t[j].k != "eof":
        v = p.t[j].v
        if v in ("<", "(", "["):
            d += 1
        elif v in (">", ")", "]"):
            d -= 1
        elif d == 0 and v == "where":
            return True
        elif d == 0 and v in ("{", ";"):
            return False
        j += 1
    return False


def _skip_to_where(p):
    out = []
    while not p.at("where"):
        out.append(p.next().v)
    return out


# ------------------------------------------------------------------------------------------------
# 4. Lean text helpers
# ------------------------------------------------------------------------------------------------
LEAN_KW = {"at", "from", "fun", "end", "show", "have", "open", "in", "then", "else", "if", "let", "do", "by",
           "with", "match", "def", "theorem", "namespace", "section", "variable", "where", "instance", "class",
           "structure", "inductive", "import", "export", "private", "protected", "mutual", "local", "using",
           "calc", "suffices", "obtain", "return", "for", "unless", "try", "catch", "finally", "mut", "e"}
P_ATOM, P_APP, P_MUL, P_ADD, P_AND, P_OR, P_LOW = 100, 90, 70, 65, 35, 30, 0


def lname(n):
    return n + "_" if n in LEAN_KW else n


def paren(tp, need):
    t, p = tp
    return "(" + t + ")" if p < need else t


def ind(s, n=2):
    pad = " " * n
    return "\n".join(pad + l if l else l for l in s.split("\n"))


def app(f, *args):
    return (f + " " + " ".join(paren(a, P_ATOM) for a in args), P_APP)


class Emit:
    """common part of the two back ends: arithmetic, comparisons, blocks, if, let"""
    SCALAR_LIT = {"0.0": "(Scalar.zero : α)", "1.0": "(Scalar.one : α)", "2.0": "(Scalar.two : α)"}
    CMP = {">": "Scalar.gt", "<": "Scalar.lt", ">=": "Scalar.ge", "<=": "Scalar.le", "==": "Scalar.eq"}

    def __init__(self, item):
        self.item = item
        self.fresh = 0

    def fail(self, what):
        raise Unsupported("%s: fn %s: unsupported %s" % (self.item.fname, self.item.name, what))

    def gensym(self, base="t"):
        self.fresh += 1
        return "%s%d" % (base, self.fresh)

    # -- expressions -------------------------------------------------------------------------
    def ex(self, e, sc):
        """(lean text, precedence); `sc` = dict of the names in scope (rust name -> lean text)"""
        k = e[0]
        if k == "paren":
            return self.ex(e[1], sc)
        if k == "num":
            if e[1] in self.SCALAR_LIT:
                return (self.SCALAR_LIT[e[1]], P_ATOM)
            self.fail("numeric literal %s" % e[1])
        if k == "un":
            if e[1] in ("*", "&"):
                return self.ex(e[2], sc)       # (de)reference of a Copy scalar / a shared borrow: no-op
            if e[1] == "!":
                return ("!" + paren(self.ex(e[2], sc), P_ATOM), P_APP)
            self.fail("unary `%s` (no counterpart in Scalar)" % e[1])
        if k == "bin":
            op = e[1]
            if op in ("+", "-", "*", "/"):
                p = P_ADD if op in "+-" else P_MUL
                l, r = self.ex(e[2], sc), self.ex(e[3], sc)
                return (paren(l, p) + " " + op + " " + paren(r, p + 1), p)
            if op in self.CMP:
                return app(self.CMP[op], self.ex(e[2], sc), self.ex(e[3], sc))
            if op in ("&&", "||"):
                p = P_AND if op == "&&" else P_OR
                l, r = self.ex(e[2], sc), self.ex(e[3], sc)
                return (paren(l, p) + " " + op + " " + paren(r, p + 1), p)
            self.fail("binary operator `%s`" % op)
        if k == "path" and len(e[1]) == 1:
            n = e[1][0]
            if n in sc:
                return (sc[n], P_ATOM)
            if n in ("true", "false"):
                return (n, P_ATOM)
            self.fail("unbound name `%s`" % n)
        if k == "if":
            return self.ifx(e, sc)
        if k == "block":
            return self.seq(e[1], 0, e[2], dict(sc), set())
        if k == "macro" and e[1] == "ulps_eq" and len(e[2]) == 2:
            a, b = e[2]
            b0 = b[1] if b[0] == "num" else None
            if b0 is None and b[0] == "call" and b[1][0] == "path" and not b[2]:
                b0 = {"V::zero": "0.0", "V::one": "1.0"}.get("::".join(b[1][1]))
            if b0 == "1.0":
                return app("Scalar.isOne", self.ex(a, sc))
            if b0 == "0.0":
                return app("Scalar.isZero", self.ex(a, sc))
            return app("Scalar.ulpsEq", self.ex(a, sc), self.ex(b, sc))
        return self.ex_special(e, sc)

    def ex_special(self, e, sc):
        self.fail("expression form `%s`" % describe(e))

    def ifx(self, e, sc):
        if e[3] is None:
            self.fail("`if` without `else` used as a value")
        c = self.ex(e[1], sc)
        th = self.ex(e[2], sc)
        el = self.ex(e[3], sc)
        return (self.mkif(c, th, el, e[3][0] == "if"), P_LOW)

    @staticmethod
    def mkif(c, th, el, chained):
        def br(t):
            return "(" + t[0] + ")" if t[0].startswith(("let ", "match ")) else t[0]
        return "if " + c[0] + " then\n" + ind(br(th)) + "\nelse" + \
            (" " + el[0] if chained else "\n" + ind(br(el)))

    # -- statement sequences ------------------------------------------------------------------
    def seq(self, stmts, i, tail, sc, deferred):
        """lean term for stmts[i:] followed by `tail`"""
        if i == len(stmts):
            if tail is None:
                return self.no_tail(sc)
            return self.tail(tail, sc)
        s = stmts[i]
        k = s[0]
        if k == "let" and s[2] is None:
            if s[1][0] != "pid":
                self.fail("deferred `let` with a pattern")
            return self.seq(stmts, i + 1, tail, sc, deferred | {s[1][1]})
        if k == "let":
            return self.let(s, stmts, i, tail, sc, deferred)
        if k == "assign" and s[1] == "=" and s[2][0] == "path" and len(s[2][1]) == 1:
            n = s[2][1][0]
            if n not in deferred:
                return self.assign_other(s, stmts, i, tail, sc, deferred)
            v = self.ex(s[3], sc)
            sc2 = dict(sc)
            sc2[n] = lname(n)
            self.note_let(n, s[3], sc, sc2)
            rest = self.seq(stmts, i + 1, tail, sc2, deferred - {n})
            return self.mklet(lname(n), v, rest)
        if k == "ifs":
            return self.if_stmt(s[1], stmts, i, tail, sc, deferred)
        return self.stmt_special(s, stmts, i, tail, sc, deferred)

    def mklet(self, name, v, rest):
        vt = "(" + v[0] + ")" if v[0].startswith("match ") else v[0]
        head = "let " + name + " := " + vt if "\n" not in vt else "let " + name + " :=\n" + ind(vt, 4)
        return (head + ";\n" + rest[0], P_LOW)

    def let(self, s, stmts, i, tail, sc, deferred):
        if s[1][0] != "pid":
            self.fail("`let` with a destructuring pattern")
        n = s[1][1]
        v = self.ex(s[2], sc)
        sc2 = dict(sc)
        sc2[n] = lname(n)
        self.note_let(n, s[2], sc, sc2)
        return self.mklet(lname(n), v, self.seq(stmts, i + 1, tail, sc2, deferred - {n}))

    def note_let(self, n, value, sc, sc2):
        """hook: `n` has just been bound to the Rust expression `value` (translated in scope `sc`); `sc2` is the
        scope of the continuation.  Back ends may record facts about `n` in `sc2` (keys that are not Rust names)."""
        pass

    def if_stmt(self, e, stmts, i, tail, sc, deferred):
        """`if c { assignments } else { assignments }` followed by more statements: the continuation is
        copied into every branch (the branches only bind names; Rust scoping makes that transparent
        unless a branch-local `let` shadows an outer name, which is refused)."""
        if e[3] is None:
            self.fail("`if` statement without `else`")
        rest = stmts[i + 1:]

        def branch(b):
            if b[0] == "if":
                return self.if_stmt(b, stmts, i, tail, sc, deferred)
            if b[2] is not None:
                self.fail("value-producing block in an `if` statement")
            for st in b[1]:
                if st[0] == "let" and st[1][0] == "pid" and st[1][1] in sc:
                    self.fail("branch-local `let %s` shadowing an outer name" % st[1][1])
                if st[0] == "let" and st[1][0] == "pid" and st[1][1] in deferred:
                    self.fail("branch-local `let %s` shadowing a deferred name" % st[1][1])
            return self.seq(b[1] + rest, 0, tail, dict(sc), set(deferred))
        c = self.ex(e[1], sc)
        th, el = branch(e[2]), branch(e[3])
        return (self.mkif(c, th, el, e[3][0] == "if"), P_LOW)

    def tail(self, e, sc):
        return self.ex(e, sc)

    def no_tail(self, sc):
        self.fail("block without a value")

    def assign_other(self, s, stmts, i, tail, sc, deferred):
        self.fail("assignment to an initialised variable (`%s = ...`)" % s[2][1][0])

    def stmt_special(self, s, stmts, i, tail, sc, deferred):
        self.fail("statement form `%s`" % describe(s))


def describe(e, depth=0):
    """short rust-like rendering of an AST node for error messages"""
    if not isinstance(e, tuple):
        return str(e)
    k = e[0]
    if k in ("num", "str"):
        return e[1]
    if k == "path":
        return "::".join(e[1])
    if k == "mcall":
        return describe(e[1]) + "." + e[2] + "(..)"
    if k == "call":
        return describe(e[1]) + "(..)"
    if k == "field":
        return describe(e[1]) + "." + e[2]
    if k == "index":
        return describe(e[1]) + "[" + describe(e[2]) + "]"
    if k == "macro":
        return e[1] + "!(..)"
    if k == "bin":
        return describe(e[2]) + " " + e[1] + " " + describe(e[3])
    if k == "un":
        return e[1] + describe(e[2])
    if k == "struct":
        return "::".join(e[1]) + " { .. }"
    if k == "expr":
        return describe(e[1]) + ";"
    if k == "assign":
        return describe(e[2]) + " " + e[1] + " ..;"
    if k == "try":
        return describe(e[1]) + "?"
    return k


# ------------------------------------------------------------------------------------------------
# 5. back end for src/bi.rs  (binomial opinions: everything is a scalar)
# ------------------------------------------------------------------------------------------------
LABELS = {'"b"': ".bb", '"d"': ".dd", '"u"': ".u", '"a"': ".ba", '"ev"': ".ev", '"b + d + u"': ".bdu"}
TRIPLE = {"b": ".1", "d": ".2.1", "u": ".2.2"}
FLOAT_MINMAX = {"min": "Scalar.min", "max": "Scalar.max"}
SCALAR_MARK = "%scalar:"          # scope keys `%scalar:<rust name>`: the name is known to hold a `$ft` value


class BiEmit(Emit):
    """result conventions: `-> $ft` : α ;  `-> Self` (panics through `new`) and `-> Result<Self,_>` :
    Except Label (BOp α) ;  `-> Result<(),_>` : Except Label Unit ;  BSimplex ≙ α × α × α."""

    def __init__(self, item, spec):
        Emit.__init__(self, item)
        self.spec = spec
        owner = spec.get("owner")
        self.owner = owner            # "BOpinion" | "BSimplex" | None (free function)
        r = item.ret
        if r == "$ft":
            self.mode, self.rty = "scalar", "α"
        elif r in ("Self", "Result<Self,InvalidValueError>"):
            self.mode = "except"
            self.rty = "Except Label (BOp α)" if owner == "BOpinion" else "Except Label (α × α × α)"
        elif r == "Result<(),InvalidValueError>":
            self.mode, self.rty = "except", "Except Label Unit"
        elif r == "bool":
            self.mode, self.rty = "scalar", "Bool"
        else:
            self.fail("return type `%s`" % r)

    # parameters ----------------------------------------------------------------------------
    def signature(self):
        sc, binders = {}, []
        for pat, ty in self.item.params:
            if pat == "self":
                sc["self"] = "x"
                binders.append("(x : BOp α)")
                continue
            if pat[0] != "pid":
                self.fail("parameter pattern")
            n = pat[1]
            if ty == "&Self":
                ln = "y" if n == "rhs" else lname(n)
                sc[n] = ln
                binders.append("(%s : BOp α)" % ln)
                self.bops = getattr(self, "bops", set()) | {n}
            elif ty in ("$ft", "V"):
                sc[n] = lname(n)
                sc[SCALAR_MARK + n] = True
                binders.append("(%s : α)" % lname(n))
            elif ty == "S" and self.spec.get("label_param") == n:
                sc[n] = lname(n)            # `label: S` with S: Into<String>  ↦  a `Label`
                binders.append("(%s : Label)" % lname(n))
            elif ty == "&[BSimplex<$ft>;2]":
                sc[n + "[0]"] = "c0"
                sc[n + "[1]"] = "c1"
                binders.append("(c0 c1 : α × α × α)")
            else:
                self.fail("parameter type `%s`" % ty)
        return sc, binders

    # which Rust expressions are known to be of the float type `$ft` (no type inference here: a syntactic
    # under-approximation; needed where a method name alone does not determine the meaning, e.g. `.min(..)` exists on
    # `f64` (NaN-skipping), on `bool` and on every `Ord` type)
    def note_let(self, n, value, sc, sc2):
        if self.is_scalar_expr(value, sc):
            sc2[SCALAR_MARK + n] = True
        else:
            sc2.pop(SCALAR_MARK + n, None)

    def is_scalar_expr(self, e, sc):
        k = e[0]
        if k == "paren":
            return self.is_scalar_expr(e[1], sc)
        if k == "num":
            return e[1] in self.SCALAR_LIT
        if k == "un" and e[1] in ("*", "&"):
            return self.is_scalar_expr(e[2], sc)
        if k == "bin" and e[1] in ("+", "-", "*", "/"):
            return self.is_scalar_expr(e[2], sc) and self.is_scalar_expr(e[3], sc)
        if k == "path" and len(e[1]) == 1:
            return bool(sc.get(SCALAR_MARK + e[1][0])) and e[1][0] in sc
        if k == "field":
            return self.is_bop(e[1], sc) and e[2] == "base_rate"
        if k == "mcall" and not e[3]:
            if self.is_bop(e[1], sc) and e[2] in ("b", "d", "u", "a", "projection"):
                return True
            return bool(self.is_cond(e[1], sc)) and e[2] in TRIPLE
        if k == "mcall" and e[2] in FLOAT_MINMAX and len(e[3]) == 1:
            return self.is_scalar_expr(e[1], sc) and self.is_scalar_expr(e[3][0], sc)
        return False

    def is_bop(self, e, sc):
        return e[0] == "path" and len(e[1]) == 1 and e[1][0] in sc and \
            (e[1][0] == "self" or e[1][0] in getattr(self, "bops", set()))

    def is_cond(self, e, sc):
        if e[0] == "index" and e[1][0] == "path" and len(e[1][1]) == 1 and e[2][0] == "num":
            return sc.get(e[1][1][0] + "[" + e[2][1] + "]")
        return None

    # expressions ---------------------------------------------------------------------------
    def ex_special(self, e, sc):
        k = e[0]
        if k == "mcall" and not e[3]:
            recv, name = e[1], e[2]
            if self.is_bop(recv, sc):
                if name in ("b", "d", "u", "a"):
                    return (sc[recv[1][0]] + "." + name, P_ATOM)
                if name == "projection":
                    return app("SLV.Gen.projection", (sc[recv[1][0]], P_ATOM))
            c = self.is_cond(recv, sc)
            if c and name in TRIPLE:
                return (c + TRIPLE[name], P_ATOM)
        if k == "mcall" and e[2] in FLOAT_MINMAX and len(e[3]) == 1:
            # `r.min(s)` / `r.max(s)` on floats: the inherent `f64::min` / `f64::max` ("if one of the arguments is NaN,
            # then the other argument is returned") ≙ `Scalar.min` / `Scalar.max`.  Only when BOTH operands are
            # syntactically known to be `$ft` values (`is_scalar_expr`): on any other receiver the name means something else.
            if not (self.is_scalar_expr(e[1], sc) and self.is_scalar_expr(e[3][0], sc)):
                self.fail("method call `%s` on operands that are not recognisably `$ft` values" % describe(e))
            return app(FLOAT_MINMAX[e[2]], self.ex(e[1], sc), self.ex(e[3][0], sc))
        if k == "field" and self.is_bop(e[1], sc) and e[2] == "base_rate":
            return (sc[e[1][1][0]] + ".a", P_ATOM)
        if k == "match":
            return self.matchx(e, sc)
        if k == "call" and e[1][0] == "path":
            f = "::".join(e[1][1])
            if f in ("check_unit_interval", "check_is_one") and len(e[2]) == 2 and e[2][1][0] == "str":
                if e[2][1][1] not in LABELS:
                    self.fail("error label %s" % e[2][1][1])
                return app("checkUnit" if f == "check_unit_interval" else "checkOne",
                           self.ex(e[2][0], sc), (LABELS[e[2][1][1]], P_ATOM))
            if f == "check_simplex" and len(e[2]) == 3:
                return app("SLV.Gen.check_simplex", *[self.ex(a, sc) for a in e[2]])
            if f == "check_base_rate" and len(e[2]) == 1:
                return app("SLV.Gen.check_base_rate", self.ex(e[2][0], sc))
            if f == "BSimplex::try_new" and len(e[2]) == 3:
                return app("SLV.Gen.BSimplex_try_new", *[self.ex(a, sc) for a in e[2]])
            if f in ("Self::new", "Self::try_new") and self.owner == "BOpinion" and len(e[2]) == 4:
                # `new` = `try_new(..).unwrap()`: panic ≙ error (tied separately: gen_new_eq, gen_try_new_eq)
                return app("BOp.tryNew", *[self.ex(a, sc) for a in e[2]])
            if f == "Self::try_new" and self.owner == "BSimplex" and len(e[2]) == 3:
                return app("SLV.Gen.BSimplex_try_new", *[self.ex(a, sc) for a in e[2]])
            if f == "Ok" and len(e[2]) == 1:
                return app("Except.ok", self.value(e[2][0], sc))
        if k == "mcall" and e[2] == "unwrap" and not e[3] and self.mode == "except":
            return self.ex(e[1], sc)      # panic ≙ error, only reachable from tail position (see `tail`)
        self.fail("expression form `%s`" % describe(e))

    def value(self, e, sc):
        """non-scalar values under `Ok(..)`"""
        if e[0] == "tuple" and not e[1]:
            return ("()", P_ATOM)
        if e[0] == "call" and e[1] == ("path", ["Self"]) and self.owner == "BSimplex" and len(e[2]) == 1:
            a = e[2][0]
            if a[0] == "call" and a[1] == ("path", ["Simplex1d", "new_unchecked"]) and len(a[2]) == 2 \
                    and a[2][0][0] == "array" and len(a[2][0][1]) == 2:
                b, d = a[2][0][1]
                return ("(" + ", ".join(self.ex(v, sc)[0] for v in (b, d, a[2][1])) + ")", P_ATOM)
        if e[0] == "struct" and e[1] == ["Self"] and self.owner == "BOpinion" and \
                [f for f, _ in e[2]] == ["simplex", "base_rate"]:
            s = self.ex(e[2][0][1], sc)
            a = self.ex(e[2][1][1], sc)
            st = paren(s, P_ATOM)
            return ("⟨%s.1, %s.2.1, %s.2.2, %s⟩" % (st, st, st, a[0]), P_ATOM)
        self.fail("constructed value `%s`" % describe(e))

    def matchx(self, e, sc):
        """`match (e1, e2) { (true, true) | (false, false) => .., (bp, _) => .. }` on booleans; one guard shape is
        supported: a guarded CATCH-ALL arm `_ if g => ..` / `(_, _) if g => ..` (see `match_arms`)"""
        if e[1][0] != "tuple":
            self.fail("`match` on a non-tuple scrutinee")
        n = len(e[1][1])
        scr = ", ".join(self.ex(x, sc)[0] for x in e[1][1])
        return self.match_arms(scr, n, e[2], sc)

    def match_arms(self, scr, n, arms_in, sc):
        """Lean `match` for the arms `arms_in` (tried in order, as in Rust) over the scrutinee text `scr`.

        Guarded arm.  Rust: the arms are tried in order; an arm whose pattern matches but whose guard is false is
        skipped and the FOLLOWING arms are tried.  For a catch-all pattern (`_`, or a tuple of `_`: it binds nothing and
        matches every value that the earlier arms left over) this is rendered as

            | _, _ => if <guard> then <body> else (match <same scrutinee> with <the following arms>)

        Re-matching the same scrutinee is sound because every scrutinee component that `ex` can translate is a pure
        expression (comparisons / arithmetic on `Scalar` values, no `?`: `hoist_try` refuses `?` under a `match`), and
        the guard is translated in the scope of the `match` itself (a catch-all pattern introduces no name).  The inner
        `match` holds only the following arms: the values taken by the earlier arms never reach it.  If those arms alone
        are not exhaustive for Lean, the definition is rejected by --validate and becomes a hole (never a wrong text).
        Every other guard shape (a guard on a literal / binding pattern, on an or-pattern, on the last arm) fails."""
        arms = []
        for idx, (pats, guard, body) in enumerate(arms_in):
            if guard is not None:
                p = pats[0]
                catch_all = len(pats) == 1 and (
                    p[0] == "pwild" or (p[0] == "ptuple" and len(p[1]) == n and all(c[0] == "pwild" for c in p[1])))
                if not catch_all:
                    self.fail("match guard on a pattern that is not a catch-all (`_` or a tuple of `_`)")
                rest = arms_in[idx + 1:]
                if not rest:
                    self.fail("match guard on the last arm (no arm to fall through to)")
                g = self.ex(guard, sc)
                th = self.ex(body, sc)
                el = self.match_arms(scr, n, rest, sc)
                arms.append("| " + ", ".join(["_"] * n) + " =>\n" + ind("(" + self.mkif(g, th, el, False) + ")", 4))
                break            # the following arms live in the `else` branch
            alts, sc2 = [], dict(sc)
            for p in pats:
                if p[0] != "ptuple" or len(p[1]) != n:
                    self.fail("match pattern shape")
                cells = []
                for c in p[1]:
                    if c[0] == "plit" and c[1] in ("true", "false"):
                        cells.append(c[1])
                    elif c[0] == "pwild":
                        cells.append("_")
                    elif c[0] == "pid":
                        if len(pats) > 1:
                            self.fail("binding inside an or-pattern")
                        if c[1] in sc:
                            self.fail("pattern variable `%s` shadowing an outer name" % c[1])
                        cells.append(lname(c[1]))
                        sc2[c[1]] = lname(c[1])
                    else:
                        self.fail("match pattern")
                alts.append(", ".join(cells))
            b = self.ex(body, sc2)
            bt = "(" + b[0] + ")" if b[1] == P_LOW else b[0]
            arms.append("| " + " | ".join(alts) + " =>\n" + ind(bt, 4))
        return ("match " + scr + " with\n" + "\n".join(arms), P_LOW)

    # statements ----------------------------------------------------------------------------
    def bind_except(self, v, name, rest):
        return ("match " + v[0] + " with\n| .error e => .error e\n| .ok " + name + " =>\n" + ind(rest[0]), P_LOW)

    def hoist_try(self, e, pre):
        """replace every `E?` inside e by a fresh variable, recording (var, E) in evaluation order"""
        if not isinstance(e, tuple):
            return e
        if e[0] == "try":
            inner = self.hoist_try(e[1], pre)
            v = self.gensym("r")
            pre.append((v, inner))
            return ("path", [v])
        if e[0] in ("closure", "if", "match", "block"):
            if contains_try(e):
                self.fail("`?` under a branch / closure")
            return e
        return tuple(self.hoist_list(x, pre) for x in e)

    def hoist_list(self, x, pre):
        if isinstance(x, list):
            return [self.hoist_list(y, pre) for y in x]
        if isinstance(x, tuple):
            if x and isinstance(x[0], str) and x[0] in KINDS:
                return self.hoist_try(x, pre)
            return tuple(self.hoist_list(y, pre) for y in x)
        return x

    def with_tries(self, e, sc, k):
        """translate `e` (which may contain `?`) by k(e', sc') under the hoisted bindings"""
        if self.mode != "except" and contains_try(e):
            self.fail("`?` in a function that does not return Result")
        pre = []
        e2 = self.hoist_try(e, pre)
        sc2 = dict(sc)
        binds = []
        for v, inner in pre:
            binds.append((v, self.ex(inner, sc2)))
            sc2[v] = v
        out = k(e2, sc2)
        for v, val in reversed(binds):
            out = self.bind_except(val, v, out)
        return out

    def tail(self, e, sc):
        if self.mode == "except":
            return self.with_tries(e, sc, lambda e2, sc2: self.ex(e2, sc2))
        return self.ex(e, sc)

    def stmt_special(self, s, stmts, i, tail, sc, deferred):
        if s[0] == "expr" and self.mode == "except":
            e = s[1]
            # `E?;`  and  `E.unwrap();`  : continue on Ok, stop with the error (≙ panic) otherwise
            if e[0] == "try" or (e[0] == "mcall" and e[2] == "unwrap" and not e[3]):
                inner = e[1]
                return self.with_tries(inner, sc, lambda e2, sc2: self.bind_except(
                    self.ex(e2, sc2), "_", self.seq(stmts, i + 1, tail, sc2, deferred)))
        self.fail("statement form `%s`" % describe(s))

    def let(self, s, stmts, i, tail, sc, deferred):
        if contains_try(s[2]):
            if s[1][0] != "pid":
                self.fail("`let` with a destructuring pattern")
            n = s[1][1]

            def k(e2, sc2):
                sc3 = dict(sc2)
                sc3[n] = lname(n)
                self.note_let(n, e2, sc2, sc3)
                return self.mklet(lname(n), self.ex(e2, sc2), self.seq(stmts, i + 1, tail, sc3, deferred))
            return self.with_tries(s[2], sc, k)
        return Emit.let(self, s, stmts, i, tail, sc, deferred)

    def define(self, lean_name):
        sc, binders = self.signature()
        for pat, _ in self.item.params:
            pass
        body = self.item.body
        for st in walk_lets(body):
            if st in ("x", "y", "c0", "c1") :
                self.fail("local name `%s` clashing with a generated parameter name" % st)
        t = self.seq(body[1], 0, body[2], sc, set())
        tt = t[0]
        if self.spec.get("callee_try_new"):
            # `Self::try_new(b, d, u, a).unwrap()` : inside `new` the callee is the generated try_new
            tt = tt.replace("BOp.tryNew", "SLV.Gen.try_new")
        return "def %s {α : Type} [%s α] %s : %s :=\n%s\n" % (lean_name, getattr(self, "INST", "Scalar"), " ".join(binders),
                                                          self.rty, ind(tt))


KINDS = {"num", "str", "path", "un", "bin", "field", "mcall", "call", "index", "try", "tuple", "paren", "array",
         "if", "match", "block", "closure", "macro", "struct", "return"}


def contains_try(e):
    if isinstance(e, tuple):
        if e and e[0] == "try":
            return True
        return any(contains_try(x) for x in e)
    if isinstance(e, list):
        return any(contains_try(x) for x in e)
    return False


def walk_lets(e):
    """names bound by let / patterns anywhere below e"""
    if isinstance(e, tuple):
        if e and e[0] in ("pid",):
            yield e[1]
        for x in e:
            yield from walk_lets(x)
    elif isinstance(e, list):
        for x in e:
            yield from walk_lets(x)


def subst(e, m):
    """replace the one-segment paths named in m by the given ASTs (used to inline a small #[inline] fn)"""
    if isinstance(e, tuple):
        if len(e) == 2 and e[0] == "path" and len(e[1]) == 1 and e[1][0] in m:
            return m[e[1][0]]
        return tuple(subst(x, m) for x in e)
    if isinstance(e, list):
        return [subst(x, m) for x in e]
    return e


class BaseEmit(BiEmit):
    """src/approx_ext.rs and src/errors.rs: predicates on one scalar and the two checkers.
    `label: S` ↦ a `Label`; `Err(InvalidValueError(format!(.., label.into())))` ↦ `.error label` (an error is
    identified with the label it was built from); a call of `is_in_range(a, b, c)` is inlined (it is
    `#[inline]` in Rust), so that `ulps_eq!(v, V::zero())` / `ulps_eq!(v, V::one())` appear as such and follow
    the macro convention `Scalar.isZero v` / `Scalar.isOne v`."""

    def ex_special(self, e, sc):
        if e[0] == "call" and e[1][0] == "path":
            f = "::".join(e[1][1])
            if f in ("V::zero", "V::one") and not e[2]:
                return ("(Scalar.%s : α)" % f[3:], P_ATOM)
            if f in self.spec.get("inline", ()):
                it = find(self.items, f, r"^$")
                names = [p_[0][1] for p_ in it.params]
                b = it.body
                if len(names) != len(e[2]) or b[1] or b[2] is None:
                    self.fail("inlining of `%s`" % f)
                return self.ex(subst(b[2], dict(zip(names, e[2]))), sc)
            if f in ("approx_ext::in_unit_interval", "approx_ext::is_one", "approx_ext::is_zero") and len(e[2]) == 1:
                return app("SLV.Gen." + f.split("::")[1], self.ex(e[2][0], sc))
            if f == "Err" and len(e[2]) == 1 and self.mode == "except":
                a = e[2][0]
                lp = self.spec.get("label_param")
                if a[0] == "call" and a[1] == ("path", ["InvalidValueError"]) and len(a[2]) == 1 \
                        and a[2][0][0] == "macro" and a[2][0][1] == "format" and len(a[2][0][2]) == 2 \
                        and a[2][0][2][0][0] == "str" and a[2][0][2][1] == ("mcall", ("path", [lp]), "into", []):
                    return app("Except.error", (sc[lp], P_ATOM))
        return BiEmit.ex_special(self, e, sc)


class ConvEmit(Emit):
    """src/convert.rs: BOpinion <-> Opinion1d<_, 2>.  `value.simplex.0` of a BOpinion is the Simplex1d
    ⟨[b, d], u⟩ (pinned by the guards on BSimplex::new_unchecked / b / d / u)."""

    def __init__(self, item, spec):
        Emit.__init__(self, item)
        self.spec = spec

    def define(self, lean_name):
        hdr = self.item.ctx.split(" | ")[-1]
        m = re.match(r"impl From < (&? ?)(BOpinion < \$ft >|Opinion1d < \$ft , 2 >) > for (BOpinion < \$ft >|Opinion1d < \$ft , 2 >)$", hdr)
        if not m or len(self.item.params) != 1 or self.item.params[0][0][0] != "pid":
            self.fail("impl header `%s`" % hdr)
        self.src = "bop" if m.group(2).startswith("BOpinion") else "op2"
        self.dst = "bop" if m.group(3).startswith("BOpinion") else "op2"
        want_ty = ("&" if m.group(1) else "") + m.group(2).replace(" ", "")
        n, ty = self.item.params[0][0][1], self.item.params[0][1]
        if ty != want_ty or self.item.ret != "Self":
            self.fail("signature")
        self.pn = n
        sc = {n: lname(n)}
        body = self.item.body
        t = self.seq(body[1], 0, body[2], sc, set())
        lt = {"bop": "BOp α", "op2": "Opinion α 2"}
        return "def %s {α : Type} [Scalar α] (%s : %s) : %s :=\n%s\n" % (lean_name, lname(n), lt[self.src], lt[self.dst], ind(t[0]))

    def isval(self, e):
        return e == ("path", [self.pn])

    def ex_special(self, e, sc):
        v = lname(self.pn)
        k = e[0]
        if self.src == "bop":
            if k == "field" and self.isval(e[1]) and e[2] == "base_rate":
                return (v + ".a", P_ATOM)
            if k == "struct" and e[1] == ["Opinion1d"] and [f for f, _ in e[2]] == ["simplex", "base_rate"] \
                    and e[2][0][1] == ("field", ("field", ("path", [self.pn]), "simplex"), "0") \
                    and e[2][1][1][0] == "array" and len(e[2][1][1][1]) == 2:
                a0, a1 = [self.ex(x, sc)[0] for x in e[2][1][1][1]]
                return ("Opinion.mk' (Simplex.mk #v[%s.b, %s.d] %s.u) #v[%s, %s]" % (v, v, v, a0, a1), P_APP)
        else:
            if k == "mcall" and self.isval(e[1]) and e[2] == "u" and not e[3]:
                return (v + ".u", P_ATOM)
            if k == "index" and e[2][0] == "num" and e[2][1] in ("0", "1"):
                if e[1] == ("mcall", ("path", [self.pn]), "b", []):
                    return ("%s.b[%s]" % (v, e[2][1]), P_ATOM)
                if e[1] == ("field", ("path", [self.pn]), "base_rate"):
                    return ("%s.a[%s]" % (v, e[2][1]), P_ATOM)
            if k == "call" and e[1] == ("path", ["BOpinion", "new_unchecked"]) and len(e[2]) == 4:
                return app("BOp.mk", *[self.ex(x, sc) for x in e[2]])
        self.fail("expression form `%s`" % describe(e))


# ------------------------------------------------------------------------------------------------
# 5b. back ends for the comparison impls (property C20; model: SLV/Model/Eq.lean, `[CmpScalar α]`)
# ------------------------------------------------------------------------------------------------
class CmpEmit(BiEmit):
    """`impl AbsDiffEq / RelativeEq / UlpsEq for BOpinion<$ft>` (src/bi.rs, inside `impl_bop!`).
    Conventions: `other: &Self` ↦ y : BOp α;  `Self::Epsilon` ↦ α (pinned: `type Epsilon = <$ft as AbsDiffEq>::Epsilon`,
    guard group `bop_cmp_epsilon`, and approx's `Epsilon = Self` for f32 / f64);  `u32` ↦ Nat;  on a SCALAR receiver
    (a component accessor `self.b()`, `other.a()`, `self.base_rate`, a scalar parameter, arithmetic on those)
        r.abs_diff_eq(s, e) ↦ Cmp.absDiffEq r s e      r.relative_eq(s, e, m) ↦ Cmp.relativeEq r s e m
        r.ulps_eq(s, e, k)  ↦ Cmp.ulpsEq r s e k       (approx-0.5.1's scalar comparisons, transcribed in Eq.lean)
    argument order preserved.  Anything else (a comparison written out with `f64::from`, `.abs()`, an early `return`,
    a comparison on a non-scalar receiver) is outside the subset: the function becomes a hole."""
    INST = "CmpScalar"
    CMPS = {"abs_diff_eq": ("Cmp.absDiffEq", ["S", "S"]), "relative_eq": ("Cmp.relativeEq", ["S", "S", "S"]),
            "ulps_eq": ("Cmp.ulpsEq", ["S", "S", "N"])}

    def signature(self):
        sc, binders = {}, []
        self.scalars, self.nats, self.bops = set(), set(), set()
        for pat, ty in self.item.params:
            if pat == "self":
                sc["self"] = "x"
                binders.append("(x : BOp α)")
                continue
            if pat[0] != "pid":
                self.fail("parameter pattern")
            n = pat[1]
            if n in ("x", "y"):
                self.fail("parameter name `%s` clashing with a generated parameter name" % n)
            if ty == "&Self":
                ln = "y" if n == "other" else lname(n)
                sc[n] = ln
                binders.append("(%s : BOp α)" % ln)
                self.bops.add(n)
            elif ty in ("Self::Epsilon", "$ft"):
                sc[n] = lname(n)
                binders.append("(%s : α)" % lname(n))
                self.scalars.add(n)
            elif ty == "u32":
                sc[n] = lname(n)
                binders.append("(%s : Nat)" % lname(n))
                self.nats.add(n)
            else:
                self.fail("parameter type `%s`" % ty)
        return sc, binders

    def kind_of(self, e, sc):
        """"S" scalar | "N" the u32 parameter | None (unknown): a light kind check, so that an ill-kinded comparison is
        refused here (= a hole) and not only by --validate"""
        k = e[0]
        if k == "paren":
            return self.kind_of(e[1], sc)
        if k == "un" and e[1] in ("*", "&"):
            return self.kind_of(e[2], sc)
        if k == "path" and len(e[1]) == 1:
            return "S" if e[1][0] in self.scalars else "N" if e[1][0] in self.nats else None
        if k == "mcall" and not e[3] and self.is_bop(e[1], sc) and e[2] in ("b", "d", "u", "a"):
            return "S"
        if k == "field" and self.is_bop(e[1], sc) and e[2] == "base_rate":
            return "S"
        if k == "bin" and e[1] in ("+", "-", "*", "/"):
            return "S" if self.kind_of(e[2], sc) == "S" and self.kind_of(e[3], sc) == "S" else None
        if k == "num" and e[1] in self.SCALAR_LIT:
            return "S"
        return None

    def ex_special(self, e, sc):
        if e[0] == "mcall" and e[2] in self.CMPS:
            fn, kinds = self.CMPS[e[2]]
            parts = [e[1]] + list(e[3])
            if len(parts) != len(kinds) + 1:
                self.fail("`.%s(..)` with %d arguments" % (e[2], len(e[3])))
            for part, want in zip(parts, ["S"] + kinds):
                if self.kind_of(part, sc) != want:
                    self.fail("`.%s(..)`: `%s` is not a %s (the comparison must delegate to the scalar type's `%s` "
                              "on component accessors)" % (e[2], describe(part),
                                                           "scalar" if want == "S" else "u32 parameter", e[2]))
            return app(fn, *[self.ex(p_, sc) for p_ in parts])
        return BiEmit.ex_special(self, e, sc)


class StructItem:
    """a `struct` item: attrs = token texts of the attributes in front of it, fields = [(name | tuple index, type text)]"""

    def __init__(self, name, attrs, fields, span, fname):
        self.name, self.attrs, self.fields, self.span, self.fname = name, attrs, fields, span, fname


def scan_structs(text, fname):
    toks = tokenize(text, fname)
    out = []
    for i, tk in enumerate(toks):
        if not (tk.k == "id" and tk.v == "struct" and toks[i + 1].k == "id"):
            continue
        name = toks[i + 1].v
        j = i
        if j >= 4 and [t.v for t in toks[j - 4:j]] == ["pub", "(", "crate", ")"]:
            j -= 4
        elif j >= 1 and toks[j - 1].v == "pub":
            j -= 1
        attrs = []
        while j >= 2 and toks[j - 1].k == "p" and toks[j - 1].v == "]":
            d, k = 0, j - 1
            while k >= 0:
                if toks[k].k == "p" and toks[k].v == "]":
                    d += 1
                elif toks[k].k == "p" and toks[k].v == "[":
                    d -= 1
                    if d == 0:
                        break
                k -= 1
            if k < 1 or toks[k - 1].v != "#":
                break
            attrs.insert(0, " ".join(t.v for t in toks[k - 1:j]))
            j = k - 1
        p = Parser(toks, fname, name)
        p.i = i + 2

        def skip_field_prefix():
            while p.at("#"):
                p.next()
                p.expect("[")
                d_ = 1
                while d_:
                    v_ = p.next()
                    if v_.k == "eof":
                        p.fail("attribute")
                    d_ += {"[": 1, "]": -1}.get(v_.v, 0) if v_.k == "p" else 0
            if p.at("pub"):
                p.next()
                if p.at("("):
                    while not p.at(")"):
                        p.next()
                    p.next()
        try:
            if p.at("<"):
                p.skip_angles()
            fields = []
            if p.at("("):
                p.next()
                while not p.at(")"):
                    skip_field_prefix()
                    fields.append((str(len(fields)), "".join(p.skip_type([",", ")"]))))
                    if p.at(","):
                        p.next()
                p.next()
                if p.at("where"):
                    p.skip_type([";"])
                p.expect(";")
            else:
                if p.at("where"):
                    p.skip_type(["{", ";"])
                if p.at(";"):
                    p.next()
                else:
                    p.expect("{")
                    while not p.at("}"):
                        skip_field_prefix()
                        fn_ = p.ident()
                        p.expect(":")
                        fields.append((fn_, "".join(p.skip_type([",", "}"]))))
                        if p.at(","):
                            p.next()
                    p.next()
        except Unsupported:
            continue           # a struct outside the subset is not registered: a target that needs it finds 0 definitions
        out.append(StructItem(name, attrs, fields, (toks[j].pos, toks[p.i - 1].pos + 1), fname))
    return out


def token_text(text, fname):
    """the file as its token sequence joined by blanks (insensitive to white space and comments)"""
    return " ".join(t.v for t in tokenize(text, fname)[:-1])


def find_struct(structs, name, fname):
    hits = [s for s in structs if s.name == name]
    if len(hits) != 1:
        raise Unsupported("%s: fn %s: expected exactly one `struct %s`, found %d" % (fname, name, name, len(hits)))
    return hits[0]


def check_derived_eq(structs, toktext, name, fname):
    """convention guard of a DERIVED `==`: `struct <name>` carries `#[derive(.. PartialEq ..)]` and the file has no
    hand-written `impl .. PartialEq .. for <name>` besides it"""
    st = find_struct(structs, name, fname)
    if not any(re.match(r"^# \[ derive \( (.* )?PartialEq( .*)? \) \]$", a) for a in st.attrs):
        raise Unsupported("%s: fn %s: convention guard: `struct %s` no longer derives PartialEq (attributes: %s)"
                          % (fname, name, name, "; ".join(st.attrs) or "none"))
    m = re.search(r"\bimpl\b[^{};]*\bPartialEq\b[^{};]*\bfor (?:& )?(?:' \w+ )?%s\b" % re.escape(name), toktext)
    if m:
        raise Unsupported("%s: fn %s: convention guard: hand-written `%s` next to the derived PartialEq"
                          % (fname, name, m.group(0)))
    return st


class EqEmit(Emit):
    """`==` of the crate's own types (property C20), one marker definition `eq_<Type>` each.

    DERIVED (`spec["derived"] = <struct>`; the item is the struct): `#[derive(PartialEq)]` on a struct is the `&&`, in
    declaration order, of the `==` of its fields.  The guard `check_derived_eq` pins the derive attribute and the absence
    of a hand-written impl; the field list is read from the source and every field `(name, type text)` must have an
    entry in spec["fields"], which gives the Lean text of that field's `==` in the model's representation (`x`, `y` are
    the two values).  spec["also"] = [(file, struct, [(field, type)])]: derived impls of OTHER files that the field `==`
    delegates to (checked the same way, field list pinned);  spec["pins"] = [(file, regex on the token text, what)]: type
    aliases that the convention relies on (exactly one match).

    MANUAL (`spec["manual"] = <struct>`; the item is the `fn eq` of `impl cmp::PartialEq for <struct>`): the body must be
    a `&&` of `self.f == other.f`; a field whose table entry is None is not compared (zero-sized marker) -- every other
    field must be compared exactly once; the impl must not override `ne`.

    Containers (`Vec<V>`, nested `MArr*` / `MArrD*`, `[T; 2]`) are flattened row-major in the model, their `==` is the
    cell-wise `Cmp.tabEq`; the dependency of a nested container's `==` on the inner type's is spec["needs"]."""

    def __init__(self, item, spec):
        Emit.__init__(self, item)
        self.spec = spec

    def guard_fail(self, what):
        raise Unsupported("%s: fn %s: convention guard: %s" % (self.item.fname, self.item.name, what))

    def field_eq(self, st, fname_, seen):
        table = {f: (ty, tx) for f, ty, tx in self.spec["fields"]}
        ty = dict(st.fields).get(fname_)
        if ty is None:
            self.guard_fail("`==` on `%s`, which is not a field of `struct %s`" % (fname_, st.name))
        if fname_ not in table or table[fname_][0] != ty:
            self.guard_fail("field `%s: %s` of `struct %s` (no convention for its `==`)" % (fname_, ty, st.name))
        if table[fname_][1] is None:
            self.guard_fail("`==` on the marker field `%s`" % fname_)
        if fname_ in seen:
            self.guard_fail("field `%s` compared twice" % fname_)
        seen.add(fname_)
        return table[fname_][1]

    def conj(self, e, st, seen):
        if e[0] == "paren":
            return self.conj(e[1], st, seen)
        if e[0] == "bin" and e[1] == "&&":
            l = self.conj(e[2], st, seen)
            r = self.conj(e[3], st, seen)
            return l + " && " + (r if e[3][0] != "bin" or e[3][1] != "&&" else "(" + r + ")")
        if e[0] == "bin" and e[1] == "==" and e[2][0] == "field" and e[3][0] == "field" and e[2][2] == e[3][2] \
                and e[2][1] == ("path", ["self"]) and e[3][1] == ("path", ["other"]):
            return self.field_eq(st, e[2][2], seen)
        self.guard_fail("expression form `%s` in a hand-written `eq` (expected `self.f == other.f [&& ..]`)" % describe(e))

    def define(self, lean_name):
        spec = self.spec
        fname = self.item.fname

        def other(ofile_):
            try:
                return token_text(self.load(ofile_)[0], ofile_), self.load_structs(ofile_)
            except Fatal as e_:
                self.guard_fail("%s" % e_)
        for pfile, pre, what in spec.get("pins", ()):
            n_ = len(re.findall(pre, other(pfile)[0]))
            if n_ != 1:
                self.guard_fail("expected exactly one %s in %s, found %d" % (what, pfile, n_))
        for ofile, oname, ofields in spec.get("also", ()):
            otoks, ostructs = other(ofile)
            ost = check_derived_eq(ostructs, otoks, oname, ofile)
            if ost.fields != ofields:
                self.guard_fail("the fields of `struct %s` (%s) are no longer `%s`, found `%s`"
                                % (oname, ofile, ofields, ost.fields))
        if "derived" in spec:
            st = check_derived_eq(self.structs, self.toktext, spec["derived"], fname)
            seen = set()
            parts = [self.field_eq(st, f, seen) for f, _ in st.fields]
            if not parts:
                self.guard_fail("`struct %s` without fields" % st.name)
            body = " && ".join(parts)
        else:
            st = find_struct(self.structs, spec["manual"], fname)
            it = self.item
            got = [p[0] if p[0] == "self" else (p[0][1] if p[0][0] == "pid" else "?") for p in it.params]
            if got != ["self", "other"] or [p[1] for p in it.params] != ["Self", "&Self"] or it.ret != "bool":
                self.guard_fail("signature of `eq`")
            hdr = it.ctx.split(" | ")[-1]
            if [o for o in self.items if o.name == "ne" and o.ctx.split(" | ")[-1] == hdr]:
                self.guard_fail("the impl overrides `ne`")
            if any(re.match(r"^# \[ derive \( (.* )?PartialEq( .*)? \) \]$", a) for a in st.attrs):
                self.guard_fail("`struct %s` derives PartialEq next to the hand-written impl" % st.name)
            b = it.body
            if b[1] or b[2] is None:
                self.guard_fail("statements in a hand-written `eq`")
            seen = set()
            body = self.conj(b[2], st, seen)
            table = {f: (ty, tx) for f, ty, tx in spec["fields"]}
            for f, ty in st.fields:
                if f not in table or table[f][0] != ty:
                    self.guard_fail("field `%s: %s` of `struct %s` (no convention for its `==`)" % (f, ty, st.name))
                if table[f][1] is not None and f not in seen:
                    self.guard_fail("field `%s: %s` of `struct %s` is not compared" % (f, ty, st.name))
        return "def %s {α : Type} [CmpScalar α] %s : Bool :=\n  %s\n" % (lean_name, spec["binders"], body)


def find(items, name, ctx_re):
    hits = [it for it in items if it.name == name and re.search(ctx_re, it.ctx)]
    if len(hits) != 1:
        raise Unsupported("%s: fn %s: expected exactly one definition in context /%s/, found %d"
                          % (items[0].fname if items else "?", name, ctx_re, len(hits)))
    return hits[0]


SX = r"^impl < T , V > Simplex < T , V >$"
OPREF = r"^impl < T , V > OpinionRef < '_ , T , V >$"

# ------------------------------------------------------------------------------------------------
# 7. convention guards: accessors / trivial constructors that the back ends translate BY CONVENTION
#    (`self.b()` ↦ x.b, `Simplex::new_unchecked(b, u)` ↦ Simplex.mk b u, ...).  Their bodies are pinned
#    token by token; an edit makes the translator fail (= broken tie) instead of silently keeping the convention.
# ------------------------------------------------------------------------------------------------
BSX, BOP = r"^impl < T > BSimplex < T >$", r"^impl < T > BOpinion < T >$"
OPN = r"^impl < T , V > Opinion < T , V >$"
GUARDS = {
    "bi.rs": [
        ("new_unchecked", BSX, ["b", "d", "u"], "{ Self ( Simplex1d :: new_unchecked ( [ b , d ] , u ) ) }"),
        ("b", BSX, ["self"], "{ & self . 0 . belief [ 0 ] }"),
        ("d", BSX, ["self"], "{ & self . 0 . belief [ 1 ] }"),
        ("u", BSX, ["self"], "{ & self . 0 . uncertainty }"),
        ("new_unchecked", BOP, ["b", "d", "u", "a"],
         "{ Self { simplex : BSimplex :: new_unchecked ( b , d , u ) , base_rate : a } }"),
        ("b", BOP, ["self"], "{ & self . simplex . b ( ) }"),
        ("d", BOP, ["self"], "{ & self . simplex . d ( ) }"),
        ("u", BOP, ["self"], "{ self . simplex . u ( ) }"),
        ("a", BOP, ["self"], "{ & self . base_rate }"),
    ],
    "mul.rs": [
        ("new_unchecked", SX, ["b", "u"], "{ Self { belief : b , uncertainty : u } }"),
        ("b", SX, ["self"], "{ & self . belief }"),
        ("u", SX, ["self"], "{ & self . uncertainty }"),
        ("b", OPREF, ["self"], "{ & self . simplex . belief }"),
        ("u", OPREF, ["self"], "{ self . simplex . uncertainty }"),
        ("b", OPN, ["self"], "{ & self . simplex . belief }"),
        ("u", OPN, ["self"], "{ self . simplex . uncertainty }"),
        ("new_unchecked", OPN, ["b", "u", "a"],
         "{ Self { simplex : Simplex :: new_unchecked ( b , u ) , base_rate : a } }"),
        ("as_ref", r"^impl < S , T > OpinionBase < S , T >$", ["self"],
         "{ OpinionBase { simplex : & self . simplex , base_rate : & self . base_rate } }"),
    ],
}


# helpers of src/multi_array/* that the product functions use and that are translated BY CONVENTION
# (`productN_iter`, `MArrDN::productN`, `MArrN::productN` ↦ `outer2` / `outer3`, row-major, left-associated products).
# A group is checked only for the targets that name it in spec["guards"]: a failure makes exactly those functions holes.
ML, MU = "multi_array/labeled.rs", "multi_array/non_labeled.rs"
CMP_CTX = r"impl_bop \| impl %s for BOpinion < \$ft >$"
GUARD_GROUPS = {
    "marr_labeled_2": (ML, [
        ("product2_iter", r"^$", ["w0", "w1"], "{ iproduct ! ( w0 , w1 ) . map ( | ( & v0 , & v1 ) | v0 * v1 ) }"),
        ("product2", r"Product2 < & MArrD1 < D0 , V > , & MArrD1 < D1 , V > > for MArrD2 < D0 , D1 , V >", ["w0", "w1"],
         "{ Self :: from_iter ( product2_iter ( w0 , w1 ) ) }"),
    ]),
    "marr_labeled_3": (ML, [
        ("product3_iter", r"^$", ["w0", "w1", "w2"],
         "{ iproduct ! ( w0 , w1 , w2 ) . map ( | ( & v0 , & v1 , & v2 ) | v0 * v1 * v2 ) }"),
        ("product3", r"Product3 < & MArrD1 < D0 , V > , & MArrD1 < D1 , V > , & MArrD1 < D2 , V > > for MArrD3 < D0 , D1 , D2 , V >",
         ["w0", "w1", "w2"], "{ Self :: from_iter ( product3_iter ( w0 , w1 , w2 ) ) }"),
    ]),
    "marr_unlabeled_2": (MU, [
        ("product2", r"Product2 < & \[ V ; D0 \] , & \[ V ; D1 \] > for MArr2 < V , D0 , D1 >", ["w0", "w1"],
         "{ Self :: from_fn ( | d | w0 [ d [ 0 ] ] * w1 [ d [ 1 ] ] ) }"),
    ]),
    "marr_unlabeled_3": (MU, [
        ("product3", r"Product3 < & \[ V ; D0 \] , & \[ V ; D1 \] , & \[ V ; D2 \] > for MArr3 < V , D0 , D1 , D2 >",
         ["w0", "w1", "w2"], "{ Self :: from_fn ( | d | w0 [ d [ 0 ] ] * w1 [ d [ 1 ] ] * w2 [ d [ 2 ] ] ) }"),
    ]),
    # the defaults of the approximate comparisons of BOpinion<$ft> delegate to the scalar type's (text pins); the
    # associated type `Epsilon` is the scalar type's (a `("@text", regex on the token text, what, short name)` entry: exactly one match)
    "bop_cmp_epsilon": ("bi.rs", [
        ("@text", r"impl AbsDiffEq for BOpinion < \$ft > \{ type Epsilon = < \$ft as AbsDiffEq > :: Epsilon ;",
         "`type Epsilon = <$ft as AbsDiffEq>::Epsilon;` at the head of `impl AbsDiffEq for BOpinion<$ft>`", "Epsilon"),
        ("default_epsilon", CMP_CTX % "AbsDiffEq", [], "{ < $ft as AbsDiffEq > :: default_epsilon ( ) }"),
    ]),
    "bop_cmp_max_relative": ("bi.rs", [
        ("default_max_relative", CMP_CTX % "RelativeEq", [], "{ < $ft as RelativeEq > :: default_max_relative ( ) }"),
    ]),
    "bop_cmp_max_ulps": ("bi.rs", [
        ("default_max_ulps", CMP_CTX % "UlpsEq", [], "{ < $ft as UlpsEq > :: default_max_ulps ( ) }"),
    ]),
}


def check_guards(items, fname, text, guards=None):
    spans = []
    for name, ctx, params, body in (GUARDS[fname] if guards is None else guards):
        if name == "@text":
            n = len(re.findall(ctx, token_text(text, fname)))
            if n != 1:
                raise Unsupported("%s: fn %s: convention guard: expected exactly one %s, found %d"
                                  % (fname, body, params, n))
            continue
        it = find(items, name, ctx)
        got_params = [p[0] if p[0] == "self" else (p[0][1] if p[0][0] == "pid" else "?") for p in it.params]
        got = it.body_text().replace(", }", "}").replace(",}", "}")
        got = re.sub(r"\s+", " ", got.replace("}", " }")).strip()
        if got_params != params or got != body:
            raise Unsupported("%s: fn %s (%s): convention guard: the body is no longer `%s`, found `%s`"
                              % (fname, name, ctx.strip("^$"), body, got))
        spans.append(text[it.span[0]:it.span[1]])
    return spans


IMPL_BOP = r"impl_bop \| impl BOpinion"
BI_TARGETS = [
    # (lean name, rust fn, regex on the enclosing impl header, spec)
    ("check_simplex", "check_simplex", r"^$", {"owner": None}),
    ("check_base_rate", "check_base_rate", r"^$", {"owner": None}),
    ("BSimplex_try_new", "try_new", r"impl_simplex \| impl BSimplex", {"owner": "BSimplex"}),
    ("try_new", "try_new", IMPL_BOP, {"owner": "BOpinion"}),
    ("new", "new", IMPL_BOP, {"owner": "BOpinion", "callee_try_new": True}),
] + [(f, f, IMPL_BOP, {"owner": "BOpinion"}) for f in
     ("projection", "mul", "comul", "cfuse", "afuse", "wfuse", "deduce", "trans_unc", "trans_opp", "trans_bsr")]


def sha(text):
    return hashlib.sha256(text.encode()).hexdigest()


class Fatal(Exception):
    """nothing can be written for an output file (source missing, item scanner lost)"""


def reason_of(e):
    m = re.match(r"^[^:]+: fn [^:]+: (.*)$", str(e), flags=re.S)
    return (m.group(1) if m else str(e)).replace("\n", " ")


def generate(out_name, src_dir, forced=None):
    """-> (lean text, holes) where holes = [(source file, lean name, reason)].
    A function that cannot be translated (or that calls a generated function that could not be) gets NO
    definition, only a comment line `-- UNTRANSLATABLE ..`: its tie theorem then fails with an unknown
    identifier while every other function is still generated and tied."""
    cfg = OUTPUTS[out_name]
    ns = cfg["ns"]
    defs, spans, holes, failed = [], [], [], {}
    cache = {}

    def load(fname):
        if fname not in cache:
            try:
                text = open(os.path.join(src_dir, fname)).read()
            except OSError as e:
                raise Fatal("cannot read source: %s" % e)
            try:
                cache[fname] = (text, scan_items(text, fname))
            except Unsupported as e:
                raise Fatal("item scanner lost in %s: %s" % (fname, e))
        return cache[fname]
    scache, tcache = {}, {}

    def load_structs(fname):
        if fname not in scache:
            text_, _ = load(fname)
            try:
                scache[fname] = scan_structs(text_, fname)
            except Unsupported as e:
                raise Fatal("item scanner lost in %s: %s" % (fname, e))
        return scache[fname]

    def load_toktext(fname):
        if fname not in tcache:
            tcache[fname] = token_text(load(fname)[0], fname)
        return tcache[fname]
    group_state = {}

    def group_failure(g):
        """None if the guard group holds, else the reason (checked once per run; its spans enter the sha)"""
        if g not in group_state:
            gfile, guards = GUARD_GROUPS[g]
            try:
                gtext, gitems = load(gfile)
                spans.extend(check_guards(gitems, gfile, gtext, guards))
                group_state[g] = None
            except (Unsupported, Fatal) as e:
                sys.stderr.write("rs2lean: %s: CONVENTION GUARD GROUP `%s` FAILED, the functions relying on it become "
                                 "untranslatable: %s\n" % (gfile, g, e))
                m = re.match(r"^[^:]+: (fn [^:]+): ", str(e))
                group_state[g] = "convention guard group `%s` of %s failed (%s): the helper is translated by convention" % (
                    g, gfile, m.group(1) if m else str(e)[:120])
        return group_state[g]
    for unit in cfg["units"]:
        fname, targets, guard_files = unit[:3]
        poison = None
        try:
            text, items = load(fname)
        except Fatal as e:
            if len(unit) < 4 or not unit[3]:
                raise
            # a "soft" unit (only marker definitions come from it): the file is unusable => its targets are holes
            sys.stderr.write("rs2lean: %s: %s: every target of this file becomes untranslatable\n" % (fname, e))
            text, items, poison = "", [], "the source file is unusable (%s)" % str(e)[:120]
        try:
            for gf in guard_files:
                gtext, gitems = load(gf)
                sp = check_guards(gitems, gf, gtext)
                if gf == fname:
                    spans += sp
        except Unsupported as e:
            sys.stderr.write("rs2lean: %s: CONVENTION GUARD FAILED, every function of this file becomes untranslatable: %s\n"
                             % (fname, e))
            m = re.match(r"^[^:]+: (fn [^:]+): ", str(e))
            poison = "convention guard failed in %s (%s): accessors are translated by convention" % (fname, m.group(1) if m else "?")
        for lean_name, rust, ctx, spec in targets:
            why, d, line, span = poison, None, 0, ""
            if why is None and forced and lean_name in forced:
                why = forced[lean_name]
            for g in spec.get("guards", ()):
                gf = group_failure(g)
                if why is None and gf is not None:
                    why = gf
            for nd in spec.get("needs", ()):
                if why is None and nd in failed:
                    why = "relies on the generated function `%s`, which is untranslatable" % nd
            try:
                if poison is not None and not text:
                    raise Unsupported("%s: fn %s: %s" % (fname, lean_name, poison))
                it = find_struct(load_structs(fname), rust, fname) if "derived" in spec else find(items, rust, ctx)
                span = text[it.span[0]:it.span[1]]
                spans.append(span)
                line = text.count("\n", 0, it.span[0]) + 1
                if why is None:
                    em = spec["emit"](it, spec)
                    em.items = items
                    if "derived" in spec or "manual" in spec:
                        em.structs, em.toktext = load_structs(fname), load_toktext(fname)
                        em.load, em.load_structs = load, load_structs
                    d = em.define(lean_name)
                    for f in failed:
                        if re.search(r"(?<![\w.])%s\.%s\b(?!\.)" % (re.escape(ns), re.escape(f)), d):
                            why = "calls the generated function `%s`, which is untranslatable" % f
                            break
            except Unsupported as e:
                why = reason_of(e)
            if why is not None:
                failed[lean_name] = why
                holes.append((fname, lean_name, why))
                defs.append("-- UNTRANSLATABLE %s fn %s%s: %s\n-- (no definition of %s.%s: its tie theorem gen_%s_eq must fail)\n"
                            % (fname, lean_name, "" if rust == lean_name else " (rust `%s`)" % rust, why, ns, lean_name, lean_name))
                continue
            defs.append("/-- `%s` (src/%s:%d), sha256 of the item text %s -/\n%s"
                        % (rust, fname, line, sha(span)[:16], d))
    head = ("/-\n  GENERATED by /verif/tools/rs2lean.py from %s -- do not edit, regenerated on every run.\n"
            "  source-span sha256: %s\n%s-/\n%s\nnamespace %s\nopen Scalar\n\n") % (
        ", ".join(dict.fromkeys("src/" + u[0] for u in cfg["units"])), sha("\n".join(spans)), cfg["doc"],
        "\n".join("import " + i for i in cfg["imports"]), ns)
    return head + "\n".join(defs) + "\nend %s\n" % ns, holes


# ------------------------------------------------------------------------------------------------
# 6. back end for src/mul.rs  (multinomial opinions: tables, iterator chains, loops)
# ------------------------------------------------------------------------------------------------
# value kinds:  S scalar | B bool | ("V", dim, elem) vector (a table is ("V", d, S)) | ("Sx", d) simplex |
#               ("Op", d) opinion (flat b,u,a) | ("I", d) index | ("Fuse",) | ("Opt", t)
S, B, FUSE, UNIT = ("S",), ("B",), ("Fuse",), ("Unit",)
NS = "SLV.Gen.Mul."


def pd(d):
    """a dimension as an argument: `n`, `(n0 * n1)`"""
    return "(" + d + ")" if " " in d else d


def tab(d):
    return ("V", d, S)


def lean_type(t):
    if t == S:
        return "α"
    if t == B:
        return "Bool"
    if t == FUSE:
        return "FuseOp"
    if t[0] == "V":
        return "Tab α %s" % pd(t[1]) if t[2] == S else "Vector (%s) %s" % (lean_type(t[2]), pd(t[1]))
    if t[0] == "Sx":
        return "Simplex α %s" % pd(t[1])
    if t[0] == "Op":
        return "Opinion α %s" % pd(t[1])
    if t[0] == "Opt":
        return "Option (%s)" % lean_type(t[1])
    if t == UNIT:
        return "Unit"
    if t[0] == "Exc":
        return "Except Label (%s)" % lean_type(t[1])
    if t[0] == "Thunk":
        return "Unit → %s" % lean_type(t[1])
    raise Unsupported("internal: type %r" % (t,))


INDEX_DIM = {"Idx": "n", "X": "n", "Y": "m", "X1": "n1", "X2": "n2", "X1X2": "n1 * n2"}
ALL_DIMS = ("n", "m", "n0", "n1", "n2")
MUL_LABELS = {'"u"': "Label.u", '"sum(b) + u"': "Label.sumBU", '"sum(a)"': "Label.sumA",
              '"b[{i:?}]"': "Label.b", '"a[{i:?}]"': "Label.a"}


class Scope:
    """immutable-style scope: rust name -> (lean text, kind)"""

    def __init__(self, d=None, mut=None):
        self.d = dict(d or {})
        self.mut = set(mut or ())

    def bind(self, n, text, ty, mutable=False):
        s = Scope(self.d, self.mut)
        s.d[n] = (text, ty)
        if mutable:
            s.mut.add(n)
        else:
            s.mut.discard(n)
        return s

    def __contains__(self, n):
        return n in self.d

    def __getitem__(self, n):
        return self.d[n]


class MulEmit(Emit):
    def __init__(self, item, spec):
        Emit.__init__(self, item)
        self.spec = spec
        self.dims = self.type_dims()
        self.used_dims = set()
        self.except_mode = spec["rty"].startswith("Except ")
        self.in_loop = False
        self.in_closure = False
        self.closure_raised = False

    # -- generic parameters -> dimensions ---------------------------------------------------
    def type_dims(self):
        text = self.item.ctx + " , " + getattr(self.item, "where", "")
        dims = {}
        for m in re.finditer(r"(\w+) : [^:]*?\b(?:Container|Index|IndexMut|Indexes|FromFn|ContainerMap) < (\w+)", text):
            p, ix = m.group(1), m.group(2)
            if ix in INDEX_DIM and p not in dims:
                dims[p] = INDEX_DIM[ix]
        dims.update(self.spec.get("dims", {}))
        return dims

    def rust_type(self, ty):
        """kind of a parameter from its Rust type text (spaces already removed)"""
        t = re.sub(r"^&('\w+ )?(mut)?", "", ty)
        if t == "V":
            return S
        m = re.match(r"\[V;(\w+)\]$", t)
        if m and m.group(1) in self.dims:
            return tab(self.dims[m.group(1)])
        if t == "FuseOp":
            return FUSE
        if t in self.dims:
            if t in self.spec.get("cond", ()):
                return ("V", self.dims[t], ("Sx", self.spec["cond"][t]))
            return tab(self.dims[t])
        m = re.match(r"Simplex<(\w+),V>$", t)
        if m and m.group(1) in self.dims:
            return ("Sx", self.dims[m.group(1)])
        m = re.match(r"OpinionRefD1<(?:'\w+ ,)?(\w+),V>$", t)
        if m and m.group(1) in self.dims:
            return ("Op", self.dims[m.group(1)])
        m = re.match(r"Opinion1dRef<(?:'\w+ ,)?V,(\w+)>$", t)
        if m and m.group(1) in self.dims:
            return ("Op", self.dims[m.group(1)])
        m = re.match(r"(?:OpinionRef<'\w+ ,|Opinion<)(\w+),V>$", t)
        if m and m.group(1) in self.dims:
            return ("Op", self.dims[m.group(1)])
        self.fail("parameter type `%s`" % ty)

    def rust_class(self, ty):
        """coarse Rust type of a parameter, for the resolution of the `fuse` / `fuse_assign` overloads"""
        t = ty.replace(" ", "")
        for pre, cls in (("OpinionRef<", "OpinionRef"), ("&mutOpinion<", "&mutOpinion"), ("&mutSimplex<", "&mutSimplex"),
                         ("&Opinion<", "&Opinion"), ("&Simplex<", "&Simplex")):
            if re.sub(r"^&'\w+", "&", t).startswith(pre):
                return cls
        return None

    def self_type(self):
        m = re.search(r"impl (?:< [^|]*? > )?(?:[\w:]+ (?:< .*? > )?for )?(&? ?(?:'\w+ )?\w+)(?: < ([^|]*?) >)?(?: where|$)",
                      self.item.ctx.split(" | ")[-1])
        if "self" in self.spec:
            return self.spec["self"]
        if not m:
            self.fail("impl header `%s`" % self.item.ctx)
        head = m.group(1).split()[-1]
        args = [a.strip() for a in (m.group(2) or "").split(",")]
        args = [a for a in args if a and not a.startswith("'")]
        if head == "Simplex" and args and args[0] in self.dims:
            return ("Sx", self.dims[args[0]])
        if head == "Simplex1d" and len(args) == 2 and args[1] in self.dims:
            return ("Sx", self.dims[args[1]])
        if head in ("OpinionRef", "Opinion") and args and args[0] in self.dims:
            return ("Op", self.dims[args[0]])
        if head in self.dims and head in self.spec.get("cond", ()):
            return ("V", self.dims[head], ("Sx", self.spec["cond"][head]))
        if head == "FuseOp":
            return FUSE
        self.fail("impl header `%s`" % self.item.ctx)

    # -- expressions ---------------------------------------------------------------------
    def ex(self, e, sc):
        return self.ex3(e, sc)[:2]

    def dim(self, d):
        self.used_dims.add(d)
        return d

    def ex3(self, e, sc):
        k = e[0]
        if k == "paren":
            return self.ex3(e[1], sc)
        if k == "un":
            if e[1] in ("*", "&"):
                return self.ex3(e[2], sc)
            if e[1] == "!":
                t = self.ex3(e[2], sc)
                return ("!" + paren(t[:2], P_ATOM), P_APP, B)
            self.fail("unary `%s` (no counterpart in Scalar)" % e[1])
        if k == "bin":
            op = e[1]
            l, r = self.ex3(e[2], sc), self.ex3(e[3], sc)
            if op in ("+", "-", "*", "/"):
                if l[2] != S or r[2] != S:
                    self.fail("arithmetic on non-scalars `%s`" % describe(e))
                p = P_ADD if op in "+-" else P_MUL
                return (paren(l[:2], p) + " " + op + " " + paren(r[:2], p + 1), p, S)
            if op in self.CMP:
                return app(self.CMP[op], l[:2], r[:2]) + (B,)
            if op in ("&&", "||"):
                p = P_AND if op == "&&" else P_OR
                return (paren(l[:2], p) + " " + op + " " + paren(r[:2], p + 1), p, B)
            self.fail("binary operator `%s`" % op)
        if k == "tuple" and not e[1]:
            return ("()", P_ATOM, UNIT)
        if k == "path" and len(e[1]) == 1:
            n = e[1][0]
            if n in sc:
                return (sc[n][0], P_ATOM, sc[n][1])
            if n == "None":
                return ("none", P_ATOM, ("Opt", None))
            self.fail("unbound name `%s`" % n)
        if k == "if":
            t = self.ifx(e, sc)
            return t + (self.block_type(e[2], sc),)
        if k == "block":
            t = self.seq(e[1], 0, e[2], sc, set())
            return t + (self.block_type(e, sc),)
        if k == "macro" and e[1] == "ulps_eq" and len(e[2]) == 2:
            return Emit.ex(self, e, sc) + (B,)
        if k == "macro" and e[1] == "matches" and len(e[2]) == 2 and e[2][1][0] == "path" \
                and len(e[2][1][1]) == 2 and e[2][1][1][0] == "FuseOp" and e[2][1][1][1] in self.FUSEOPS:
            v = self.ex3(e[2][0], sc)
            if v[2] == FUSE:
                return ("(match %s with | %s => true | _ => false)" % (v[0], self.FUSEOPS[e[2][1][1][1]]), P_ATOM, B)
        if k == "index" and e[2][0] == "num":
            v = self.ex3(e[1], sc)
            parts = v[2][1].split(" * ") if v[2][0] == "I" else []
            if len(parts) in (2, 3) and e[2][1] in [str(j) for j in range(len(parts))]:
                # `d[j]` of a multi-index of an MArr2 / MArr3 : the j-th component of the row-major split of the
                # flat index (`idx2` / `idx3` of SLV/Model/Prod.lean)
                j = int(e[2][1])
                proj = ([".1", ".2"] if len(parts) == 2 else [".1", ".2.1", ".2.2"])[j]
                return ("(idx%d %s)%s" % (len(parts), v[0], proj), P_ATOM, ("I", parts[j]))
            self.fail("indexing `%s` by a literal" % describe(e))
        if k == "index":
            v, i = self.ex3(e[1], sc), self.ex3(e[2], sc)
            if v[2][0] != "V" or i[2] != ("I", v[2][1]):
                self.fail("indexing `%s` (container/index kinds %r, %r)" % (describe(e), v[2], i[2]))
            return (paren(v[:2], P_ATOM) + "[" + i[0] + "]", P_ATOM, v[2][2])
        if k == "field":
            r = self.ex3(e[1], sc)
            return self.member(e, r, e[2], None, sc)
        if k == "mcall":
            it = self.iterator(e, sc)
            if it is not None:
                self.fail("iterator used as a value `%s`" % describe(e))
            fin = self.iter_final(e, sc)
            if fin is not None:
                return fin
            if e[2] == "unwrap_or_else" and len(e[3]) == 1 and e[3][0][0] == "closure" and not e[3][0][1]:
                r = self.ex3(e[1], sc)
                d_ = self.closure_body(e[3][0][2], sc)
                if r[2][0] == "Opt" and r[2][1] == d_[2]:
                    return ("(match %s with | some v => v | none => %s)" % (r[0], d_[0]), P_ATOM, d_[2])
                self.fail("`unwrap_or_else` on kinds %r / %r" % (r[2], d_[2]))
            if e[2] == "unwrap" and not e[3] and self.except_mode and self.iterator(e[1], sc) is None:
                r = self.ex3(e[1], sc)
                if r[2][0] == "Exc":
                    return r      # `.unwrap()` of a Result in a function whose panic is modelled as the error
            if self.iterator(e[1], sc) is not None:
                self.fail("iterator adaptor / consumer `.%s(..)` in `%s`" % (e[2], describe(e)))
            if e[1][0] == "tuple" and len(e[1][1]) == 2 and e[2] == "into" and not e[3]:
                s_, a_ = self.ex3(e[1][1][0], sc), self.ex3(e[1][1][1], sc)
                if s_[2][0] == "Sx" and a_[2] == tab(s_[2][1]) and self.spec["rty"].startswith("Opinion "):
                    return app("Opinion.mk'", s_[:2], a_[:2]) + (("Op", s_[2][1]),)
            r = self.ex3(e[1], sc)
            return self.member(e, r, e[2], e[3], sc)
        if k == "call" and e[1][0] == "path":
            return self.call("::".join(e[1][1]), e[2], e, sc)
        if k == "closure":
            return self.local_fn(e, sc)
        if k == "match":
            return self.match_op(e, sc)
        if k == "struct":
            fs = [f for f, _ in e[2]]
            if e[1] in (["Simplex"], ["Self"]) and fs == ["belief", "uncertainty"]:
                b, u = self.ex3(e[2][0][1], sc), self.ex3(e[2][1][1], sc)
                if b[2][0] == "V" and b[2][2] == S and u[2] == S:
                    return app("Simplex.mk", b[:2], u[:2]) + (("Sx", b[2][1]),)
            if (e[1] == ["Opinion1d"] or (e[1] == ["Self"] and self.selfkind == "Op")) and fs == ["simplex", "base_rate"]:
                s_, a_ = self.ex3(e[2][0][1], sc), self.ex3(e[2][1][1], sc)
                if s_[2][0] == "Sx" and a_[2] == tab(s_[2][1]):
                    return app("Opinion.mk'", s_[:2], a_[:2]) + (("Op", s_[2][1]),)
        if k == "mcall" and e[2] == "unwrap" and not e[3] and self.except_mode:
            r = self.ex3(e[1], sc)
            if r[2][0] == "Exc":
                return r          # `.unwrap()` of a Result in a function whose panic is modelled as the error
        self.fail("expression form `%s`" % describe(e))

    def block_type(self, b, sc):
        """kind of the value of a block (names bound inside are typed on the way)"""
        if b[0] == "if":
            return self.block_type(b[2], sc)
        if b[0] != "block":
            return self.ex3(b, sc)[2]
        for st in b[1]:
            if st[0] == "let" and st[2] is not None and st[1][0] == "pid":
                sc = sc.bind(st[1][1], lname(st[1][1]), self.ex3(st[2], sc)[2])
            if st[0] == "let" and st[2] is not None and st[1][0] == "pstruct" and st[1][2] == [("simplex", None)]:
                k_ = self.ex3(st[2], sc)[2]
                k_ = k_[1] if k_[0] == "Exc" else k_
                if k_[0] == "Op":
                    sc = sc.bind("simplex", "simplex", ("Sx", k_[1]))
        if b[2] is None:
            self.fail("block without a value")
        return self.ex3(b[2], sc)[2]

    # fields and methods by receiver kind
    def member(self, e, r, name, args, sc):
        rt, rp, ty = r
        at = paren((rt, rp), P_ATOM)
        call = args is not None
        a = [self.ex3(x, sc) for x in (args or [])]
        if name in ("clone", "borrow", "as_ref") and call and not a:
            return r
        if ty[0] == "Sx":
            d = ty[1]
            if (name == "b" and call and not a) or (name == "belief" and not call):
                return (at + ".b", P_ATOM, tab(d))
            if (name == "u" and call and not a) or (name == "uncertainty" and not call):
                return (at + ".u", P_ATOM, S)
            if call and not a and name in ("is_vacuous", "is_dogmatic"):
                return app(NS + "Simplex_" + name, r[:2]) + (B,)
            if call and len(a) == 1 and name == "projection" and a[0][2] == tab(d):
                return app(NS + "Simplex_projection", r[:2], a[0][:2]) + (tab(d),)
            if call and len(a) == 1 and name == "max_uncertainty" and a[0][2] == tab(d):
                return app(NS + "max_uncertainty", r[:2], a[0][:2]) + (S,)
            if call and len(a) == 1 and name == "uncertainty_maximized" and a[0][2] == tab(d):
                return app(NS + "uncertainty_maximized", r[:2], a[0][:2]) + (ty,)
            if call and len(a) == 1 and name == "discount" and a[0][2] == S:
                return app(NS + "Simplex_discount", r[:2], a[0][:2]) + (ty,)
        if ty[0] == "Op":
            d = ty[1]
            if name == "b" and call and not a:
                return (at + ".b", P_ATOM, tab(d))
            if name == "u" and call and not a:
                return (at + ".u", P_ATOM, S)
            if name == "base_rate" and not call:
                return (at + ".a", P_ATOM, tab(d))
            if name == "simplex" and not call:
                return app("Opinion.simplex", r[:2]) + (("Sx", d),)
            if call and not a and name in ("is_vacuous", "is_dogmatic"):
                return app(NS + "OpinionRef_" + name, r[:2]) + (B,)
            if call and not a and name == "projection":
                return app(NS + "OpinionRef_projection", r[:2]) + (tab(d),)
        if ty[0] == "Op" and call and len(a) == 1 and name == "discount" and a[0][2] == S:
            return app(NS + "OpinionRef_discount", r[:2], a[0][:2]) + (ty,)
        if ty == FUSE and call and name in ("fuse", "fuse_assign") and len(a) == 2:
            return self.fuse_call(e, r, name, args, a, sc)
        if ty[0] == "Op" and call and name in ("deduce", "deduce_with") and a and a[0][2][0] == "V" \
                and a[0][2][2][0] == "Sx" and a[0][2][1] == ty[1]:
            rt_ = ("Op", a[0][2][2][1])
            if name == "deduce" and len(a) == 1:
                return app(NS + "OpinionRef_deduce", r[:2], a[0][:2]) + (("Opt", rt_),)
            if name == "deduce_with" and len(a) == 2 and a[1][2] == ("Thunk", tab(rt_[1])):
                return app(NS + "OpinionRef_deduce_with", r[:2], a[0][:2], a[1][:2]) + (rt_,)
        if ty[0] in ("Sx", "Op") and call and name in ("abduce", "abduce_with") and len(a) >= 2 \
                and a[0][2][0] == "V" and a[0][2][2] == ("Sx", ty[1]) and a[1][2] == tab(a[0][2][1]):
            pre = NS + ("" if ty[0] == "Sx" else "OpinionRef_")
            rt_ = ("Op", a[0][2][1])
            if name == "abduce" and len(a) == 2:
                return app(pre + "abduce", r[:2], a[0][:2], a[1][:2]) + (("Opt", rt_),)
            if name == "abduce_with" and len(a) == 3 and a[2][2] == tab(ty[1]):
                return app(pre + "abduce_with", r[:2], a[0][:2], a[1][:2], a[2][:2]) + (rt_,)
        if ty[0] == "Opt" and call and name == "as_ref" and not a:
            return r
        if ty[0] == "Opt" and ty[1] is not None and call and name == "unwrap_or" and len(a) == 1 and a[0][2] == ty[1]:
            return ("(match %s with | some v => v | none => %s)" % (rt, a[0][0]), P_ATOM, ty[1])
        if ty[0] == "V" and ty[2][0] == "Sx" and call and name == "inverse" and len(a) == 2 \
                and a[0][2] == tab(ty[1]) and a[1][2] == tab(ty[2][1]):
            return app(NS + "inverse", r[:2], a[0][:2], a[1][:2]) + (("V", ty[2][1], ("Sx", ty[1])),)
        if ty[0] == "Opt" and ty[1] is not None and call and name == "unwrap_or_else" and len(a) == 1 \
                and a[0][2] == ("Thunk", ty[1]):
            return ("(match %s with | some v => v | none => %s ())" % (rt, a[0][0]), P_ATOM, ty[1])
        if ty == S and call and len(a) == 1 and name in ("min", "max") and a[0][2] == S:
            return app("Scalar." + name, r[:2], a[0][:2]) + (S,)
        self.fail("member `%s` on a value of kind %r" % (describe(e), ty))

    # the overloads of `Fuse::fuse` / `FuseAssign::fuse_assign` (resolved on the Rust types of the arguments)
    FUSE_IMPLS = {
        ("fuse", "OpinionRef", "OpinionRef"): ("fuse", True, "Op"),
        ("fuse", "&Opinion", "&Simplex"): ("fuse_opinion_simplex", False, "Op"),
        ("fuse", "&Opinion", "&Opinion"): ("fuse_opinion_opinion", True, "Op"),
        ("fuse", "OpinionRef", "&Simplex"): ("fuse_ref_simplex", False, "Op"),
        ("fuse", "&Simplex", "&Simplex"): ("fuse_simplex_simplex", False, "OptSx"),
        ("fuse_assign", "&mutOpinion", "&Opinion"): ("fuse_assign_opinion_opinion", True, "Op"),
        ("fuse_assign", "&mutOpinion", "OpinionRef"): ("fuse_assign_opinion_ref", True, "Op"),
        ("fuse_assign", "&mutOpinion", "&Simplex"): ("fuse_assign_opinion_simplex", False, "Op"),
        ("fuse_assign", "&mutSimplex", "&Simplex"): ("fuse_assign_simplex_simplex", False, "OptSx"),
    }

    def rust_kind(self, e):
        if e[0] == "paren":
            return self.rust_kind(e[1])
        if e[0] == "path" and len(e[1]) == 1:
            return self.param_rust.get(e[1][0])
        if e[0] == "mcall" and not e[3] and e[2] == "clone":
            return self.rust_kind(e[1])
        if e[0] == "mcall" and not e[3] and e[2] == "as_ref":
            return "OpinionRef" if self.rust_kind(e[1]) in ("&Opinion", "&mutOpinion") else None
        if e[0] == "call" and e[1] == ("path", ["OpinionRef", "from"]):
            return "OpinionRef"
        if e[0] == "un" and e[1] == "&" and e[2][0] == "paren" and e[2][1][0] == "un" and e[2][1][1] == "*":
            return {"&mutSimplex": "&Simplex", "&mutOpinion": "&Opinion"}.get(self.rust_kind(e[2][1][2]))
        return None

    def fuse_call(self, e, r, name, args, a, sc):
        key = (name, self.rust_kind(args[0]), self.rust_kind(args[1]))
        if key not in self.FUSE_IMPLS:
            self.fail("overload of `%s` for argument types %r" % (describe(e), key[1:]))
        fn, needs_same, res = self.FUSE_IMPLS[key]
        extra = []
        if needs_same:
            # are the two base rates the same object?  syntactically `(rhs, lhs.base_rate)`: yes; two parameters: the
            # caller's `same`; anything else is refused
            b = args[1]
            a0 = args[0][1] if args[0][0] == "mcall" and args[0][2] == "clone" else args[0]
            if b[0] == "call" and b[1] == ("path", ["OpinionRef", "from"]) and len(b[2]) == 1 and b[2][0][0] == "tuple" \
                    and len(b[2][0][1]) == 2 and b[2][0][1][1] == ("field", a0, "base_rate"):
                extra = [("true", P_ATOM)]
            elif "same_arg" in self.spec:
                extra = [(self.spec["same_arg"], P_ATOM)]
            else:
                self.fail("identity of the base-rate objects in `%s`" % describe(e))
        d = a[0][2][1]
        kind = ("Op", d) if res == "Op" else ("Opt", ("Sx", d))
        return app(NS + fn, r[:2], *(extra + [a[0][:2], a[1][:2]])) + (kind,)

    def scalar_const(self, f):
        return {"V::one": "(Scalar.one : α)", "V::zero": "(Scalar.zero : α)"}.get(f)

    def call(self, f, args, e, sc):
        if f in sc and sc[f][1][0] == "Fn":
            # `mid(x, y)` of a local `let mid = |l: V, r: V| ..;` : application of the let-bound function
            a = [self.ex3(x, sc) for x in args]
            if tuple(x[2] for x in a) != sc[f][1][1]:
                self.fail("call `%s` of a local closure with argument kinds %r" % (describe(e), [x[2] for x in a]))
            return app(sc[f][0], *[x[:2] for x in a]) + (sc[f][1][2],)
        if self.scalar_const(f) and not args:
            return (self.scalar_const(f), P_ATOM, S)
        if f in ("is_zero", "is_one", "approx_ext::is_zero", "approx_ext::is_one") and len(args) == 1:
            a = self.ex3(args[0], sc)
            if a[2] == S:
                return app("Scalar.isZero" if f.endswith("zero") else "Scalar.isOne", a[:2]) + (B,)
        segs = f.split("::")
        if len(segs) == 2 and segs[0] in self.dims and segs[1] in ("from_fn", "map") and len(args) == 1 \
                and args[0][0] == "closure":
            return self.of_fn(self.dims[segs[0]], args[0], sc)
        if len(segs) == 2 and segs[0] in self.dims and segs[1] == "zeros" and not args:
            d = self.dim(self.dims[segs[0]])
            return ("Vector.replicate %s (Scalar.zero : α)" % d, P_APP, tab(d))
        if len(segs) == 2 and segs[0] in self.dims and segs[1] == "from_iter" and len(args) == 1:
            it = self.iterator(args[0], sc)
            if it and it["kind"] == "vals" and it["map"] and not it["filter"]:
                var, body = it["map"]
                return ("Vector.map (fun %s => %s) %s" % (var, body[0], it["src"]), P_APP, ("V", it["dim"], body[2]))
            if it and it["kind"] == "zip" and it["map"] and it["dim"] == self.dims[segs[0]]:
                return ("Vector.ofFn %s" % self.lam(it, "map"), P_LOW, ("V", it["dim"], it["map"][1][2]))
        if f in ("OpinionRef::from", "Opinion::from") and len(args) == 1 and args[0][0] == "tuple" and len(args[0][1]) == 2:
            s_, a_ = self.ex3(args[0][1][0], sc), self.ex3(args[0][1][1], sc)
            if s_[2][0] == "Sx" and a_[2] == tab(s_[2][1]):
                return app("Opinion.mk'", s_[:2], a_[:2]) + (("Op", s_[2][1]),)
        if f in ("check_unit_interval", "check_is_one") and len(args) == 2 :
            a0 = self.ex3(args[0], sc)
            if a0[2] != S:
                self.fail("call `%s`" % describe(e))
            lab = args[1]
            key = lab[1] if lab[0] == "str" else (lab[2][0][1] if lab[0] == "macro" and lab[1] == "format"
                                                     and len(lab[2]) == 1 and lab[2][0][0] == "str" else None)
            if key not in MUL_LABELS:
                self.fail("error label `%s`" % describe(lab))
            return app("checkUnit" if f == "check_unit_interval" else "checkOne", a0[:2], (MUL_LABELS[key], P_ATOM)) + (("Exc", UNIT),)
        a = [self.ex3(x, sc) for x in args]
        if f == "Simplex::normalized" and len(a) == 2 and a[0][2][0] == "V" and a[1][2] == S:
            return app(NS + "Simplex_normalized", a[0][:2], a[1][:2]) + (("Sx", a[0][2][1]),)
        if f in ("Simplex::new_unchecked", "Self::new_unchecked") and len(a) == 2 and a[0][2][0] == "V" \
                and a[0][2][2] == S and a[1][2] == S and (f[0] == "S" and (f != "Self::new_unchecked" or self.selfkind == "Sx")):
            return app("Simplex.mk", a[0][:2], a[1][:2]) + (("Sx", a[0][2][1]),)
        if f in ("Simplex::vacuous", "Self::Output::vacuous", "Self::vacuous") and not a:
            rt = self.spec.get("vacuous_dim") or self.ret_dim()
            return ("(%sSimplex_vacuous : Simplex α %s)" % (NS, rt), P_ATOM, ("Sx", rt))
        if f == "Simplex::projection" and len(a) == 2 and a[0][2][0] == "Sx":
            return app(NS + "Simplex_projection", a[0][:2], a[1][:2]) + (tab(a[0][2][1]),)
        if f == "projections" and len(a) == 2 and a[0][2][0] == "V" and a[0][2][2][0] == "Sx":
            d, dm = a[0][2][1], a[0][2][2][1]
            return app(NS + "projections", a[0][:2], a[1][:2]) + (("V", d, tab(dm)),)
        if f == "compute_simlex" and [x[2][0] for x in a] == ["Fuse", "Sx", "Sx"]:
            return app(NS + "compute_simlex", *[x[:2] for x in a]) + (a[1][2],)
        if f == "compute_base_rate" and [x[2][0] for x in a] == ["Fuse", "Op", "Op"] and "same_arg" in self.spec:
            # pointer identity of the two base-rate objects is decided by the caller's arguments: parameter `same`
            return app(NS + "compute_base_rate", a[0][:2], (self.spec["same_arg"], P_ATOM), a[1][:2], a[2][:2]) + (tab(a[1][2][1]),)
        if f == "check_simplex" and len(a) == 2 and a[0][2][0] == "V" and a[0][2][2] == S and a[1][2] == S:
            return app(NS + "multi_check_simplex", a[0][:2], a[1][:2]) + (("Exc", UNIT),)
        if f == "check_base_rate" and len(a) == 1 and a[0][2][0] == "V" and a[0][2][2] == S:
            return app(NS + "multi_check_base_rate", a[0][:2]) + (("Exc", UNIT),)
        if f == "Ok" and len(args) == 1:
            if args[0] == ("tuple", []):
                return ("Except.ok ()", P_APP, ("Exc", UNIT))
            return app("Except.ok", a[0][:2]) + (("Exc", a[0][2]),)
        if f == "Self::new_unchecked" and self.selfkind == "Op" and len(a) == 3 and a[0][2][0] == "V" \
                and a[1][2] == S and a[2][2] == a[0][2]:
            return app("Opinion.mk", a[0][:2], a[1][:2], a[2][:2]) + (("Op", a[0][2][1]),)
        if f == "Self::try_new" and self.selfkind == "Sx" and len(a) == 2:
            return app(NS + "Simplex_try_new", a[0][:2], a[1][:2]) + (("Exc", ("Sx", a[0][2][1])),)
        if f == "Self::try_new" and self.selfkind == "Op" and len(a) == 3:
            return app(NS + "Opinion_try_new", a[0][:2], a[1][:2], a[2][:2]) + (("Exc", ("Op", a[0][2][1])),)
        if f == "Opinion::new" and len(a) == 3 and a[0][2][0] == "V" and a[1][2] == S:
            return app(NS + "Opinion_new", a[0][:2], a[1][:2], a[2][:2]) + (("Exc", ("Op", a[0][2][1])),)
        if f in ("MArr2::product2", "MArr3::product3", "MArrD2::product2", "MArrD3::product3",
                 "product2_iter", "product3_iter") and len(a) == int(f[f.index("product") + 7]) \
                and all(x[2][0] == "V" and x[2][2] == S for x in a):
            # the outer product of the multi_array crate (`productN_iter`: the iterator over its entries), row-major
            # ↦ `outer2` / `outer3` of SLV/Model/Prod.lean
            d = " * ".join(x[2][1] for x in a)
            if "::" in f and d != self.dims.get(f.split("::")[0]):
                self.fail("shape of `%s`" % describe(e))
            return app("outer%d" % len(a), *[x[:2] for x in a]) + (tab(self.dim(d)),)
        if f == "Opinion::normalized" and len(a) == 3 and a[0][2][0] == "V" and a[1][2] == S and a[2][2] == a[0][2]:
            return app(NS + "Opinion_normalized", a[0][:2], a[1][:2], a[2][:2]) + (("Op", a[0][2][1]),)
        if f == "Product2::product2" and len(a) == 2:
            # trait-dispatched: on two tables it is the outer product of the multi_array crate; on two opinions the
            # implementation of the family the function is instantiated for (spec "family")
            if all(x[2][0] == "V" and x[2][2] == S for x in a):
                return app("outer2", a[0][:2], a[1][:2]) + (tab(self.dim(a[0][2][1] + " * " + a[1][2][1])),)
            if all(x[2][0] == "Op" for x in a) and self.spec.get("family") in ("unlabeled", "labeled"):
                d = self.dim(a[0][2][1] + " * " + a[1][2][1])
                if self.spec["family"] == "unlabeled":
                    return app(NS + "product2", a[0][:2], a[1][:2]) + (("Exc", ("Op", d)),)
                return app(NS + "product2_labeled", a[0][:2], a[1][:2]) + (("Op", d),)
        if f == "mbr" and len(a) == 2 and a[0][2][0] == "V" and a[0][2][2] == S and a[1][2][0] == "V" \
                and a[1][2][2][0] == "Sx" and a[1][2][1] == a[0][2][1]:
            return app(NS + "mbr", a[0][:2], a[1][:2]) + (("Opt", tab(a[1][2][2][1])),)
        if f == "deduce_of" and len(a) == 3 and a[0][2][0] == "Op" and a[1][2] == ("V", a[0][2][1], ("Sx", a[2][2][1])) \
                and a[2][2][0] == "V" and a[2][2][2] == S:
            return app(NS + "deduce_of", a[0][:2], a[1][:2], a[2][:2]) + (("Op", a[2][2][1]),)
        if f == "InverseCondition::inverse" and len(a) == 3 and a[0][2][0] == "V" and a[0][2][2][0] == "Sx" \
                and a[1][2] == tab(a[0][2][1]) and a[2][2] == tab(a[0][2][2][1]):
            return app(NS + "inverse", a[0][:2], a[1][:2], a[2][:2]) + (("V", a[0][2][2][1], ("Sx", a[0][2][1])),)
        if f == "Some" and len(a) == 1:
            return app("some", a[0][:2]) + (("Opt", a[0][2]),)
        if f == "std::ptr::eq" and len(args) == 2 and "ptr_eq" in self.spec:
            want = self.spec["ptr_eq"]
            got = [describe(x) for x in args]
            if got != want[0]:
                self.fail("std::ptr::eq on %s (modelled only for %s)" % (got, want[0]))
            return (want[1], P_ATOM, B)
        self.fail("call `%s`" % describe(e))

    def ret_dim(self):
        m = re.search(r"(?:Simplex|Tab|Opinion) α (\w+)", self.spec["rty"])
        if not m:
            self.fail("dimension of the result")
        return m.group(1)

    # closures over an index: T::from_fn(|i| ..), T::map(|i| ..)
    def idx_binder(self, pat, d):
        if pat[0] == "pref":
            pat = pat[1]
        if pat[0] == "pwild":
            return "_", None
        if pat[0] == "pid":
            return lname(pat[1]), pat[1]
        self.fail("closure parameter pattern")

    def of_fn(self, d, clo, sc):
        self.dim(d)
        if len(clo[1]) != 1:
            self.fail("closure arity")
        var, rn = self.idx_binder(clo[1][0], d)
        sc2 = sc.bind(rn, var, ("I", d)) if rn else sc
        body = self.closure_body(clo[2], sc2)
        bt = body[0]
        t = "Vector.ofFn fun %s : Fin %s =>" % (var, pd(d))
        t = t + " " + bt if "\n" not in bt and len(bt) < 90 else t + "\n" + ind(bt)
        return (t, P_LOW, ("V", d, body[2]))

    def local_fn(self, clo, sc):
        """a closure used as a value (`let mid = |l: V, r: V| ..;`, later called as `mid(x, y)`): a Lean function
        of kind ("Fn", parameter kinds, result kind).  Only the shape that has a faithful counterpart is accepted:
        every parameter a plain name annotated with the scalar type `V` (the values are `Copy`: passing is by value),
        a body that is a pure scalar / boolean expression and cannot panic, and no capture of a `mut` local (the
        let-bound function would freeze the captured value).  Anything else stays an explicit failure."""
        tys = clo[3] if len(clo) > 3 else [None] * len(clo[1])
        if not clo[1]:
            self.fail("closure without parameters used as a value")
        sc2 = Scope({k_: v_ for k_, v_ in sc.d.items() if k_ not in sc.mut})
        binders = []
        for pat, ty in zip(clo[1], tys):
            if pat[0] != "pid" or len(pat) > 2:
                self.fail("closure used as a value: parameter pattern `%s`" % describe(pat))
            if ty != "V":
                self.fail("closure used as a value: parameter `%s` of type `%s` (only `V`)" % (pat[1], ty))
            sc2 = sc2.bind(pat[1], lname(pat[1]), S)
            binders.append("(%s : α)" % lname(pat[1]))
        was, was_raised = self.in_closure, self.closure_raised
        self.in_closure, self.closure_raised = True, False
        try:
            body = self.ex3(clo[2], sc2)
            raised = self.closure_raised
        finally:
            self.in_closure, self.closure_raised = was, was_raised
        if raised or body[2] not in (S, B):
            self.fail("closure used as a value: body of kind %r%s" % (body[2], " that may panic" if raised else ""))
        bt = body[0]
        t = "fun " + " ".join(binders) + " =>"
        t = t + " " + bt if "\n" not in bt and len(bt) < 90 else t + "\n" + ind(bt)
        return (t, P_LOW, ("Fn", tuple(S for _ in binders), body[2]))

    def closure_body(self, b, sc):
        """value of a closure body; a body that also updates an outer accumulator is handled in `let`"""
        was, was_raised = self.in_closure, self.closure_raised
        self.in_closure, self.closure_raised = True, False
        try:
            t = self.ex3(b, sc)
            if self.closure_raised:
                t = (t[0], t[1], ("Exc", t[2]))
        finally:
            self.in_closure, self.closure_raised = was, was_raised
        if t[0].startswith(("let ", "match ", "if ")) or t[1] == P_LOW:
            if t[0].startswith("let ") or t[0].startswith("match "):
                return ("(" + t[0] + ")", P_ATOM, t[2])
        return t

    # -- iterator chains ---------------------------------------------------------------------
    def iterator(self, e, sc):
        """description of an iterator-valued expression, or None"""
        if e[0] == "call" and e[1][0] == "path" and len(e[1][1]) == 2 and e[1][1][1] == "indexes" \
                and e[1][1][0] in self.dims and not e[2]:
            return {"kind": "idx", "dim": self.dim(self.dims[e[1][1][0]]), "src": None, "filter": None, "map": None}
        if e[0] == "macro" and e[1] == "izip" and len(e[2]) >= 2:
            return self.zipped(e[2], sc, e)
        if e[0] != "mcall":
            return None
        recv, name, args = e[1], e[2], e[3]
        if name == "zip" and len(args) == 1 and self.iterator(recv, sc) is None:
            return self.zipped([recv, args[0]], sc, e)
        if name in ("iter_with", "into_iter") and not args:
            r = self.ex3(recv, sc)
            if r[2][0] == "V":
                return {"kind": "pairs" if name == "iter_with" else "vals", "dim": self.dim(r[2][1]),
                        "src": paren(r[:2], P_ATOM), "elem": r[2][2], "filter": None, "map": None}
            return None
        if name in ("map", "filter") and len(args) == 1 and args[0][0] == "closure":
            it = self.iterator(recv, sc)
            if it is None:
                return None
            it = dict(it)
            if it["map"] is not None:
                self.fail("`.%s` after `.map` in an iterator chain" % name)
            clo = args[0]
            if len(clo[1]) != 1:
                self.fail("closure arity")
            pat = clo[1][0]
            d = it["dim"]
            if it["kind"] == "idx":
                var, rn = self.idx_binder(pat, d)
                sc2 = sc.bind(rn, var, ("I", d)) if rn else sc
            elif it["kind"] == "pairs":
                if pat[0] != "ptuple" or len(pat[1]) != 2:
                    self.fail("closure parameter of an `iter_with` chain")
                var, rn = self.idx_binder(pat[1][0], d)
                sc2 = sc.bind(rn, var, ("I", d)) if rn else sc
                vp = pat[1][1][1] if pat[1][1][0] == "pref" else pat[1][1]
                if vp[0] == "pid":
                    if rn is None:
                        self.fail("`iter_with` closure using the value without the index")
                    sc2 = sc2.bind(vp[1], "%s[%s]" % (it["src"], var), it["elem"])
                elif vp[0] != "pwild":
                    self.fail("closure parameter of an `iter_with` chain")
            elif it["kind"] == "zip":
                if pat[0] == "pref":
                    pat = pat[1]
                if pat[0] != "ptuple" or len(pat[1]) != len(it["srcs"]):
                    self.fail("closure parameter of a zipped chain")
                var = "k"
                def pat_names(q):
                    if q[0] == "pref":
                        return pat_names(q[1])
                    if q[0] == "ptuple":
                        return [n_ for q_ in q[1] for n_ in pat_names(q_)]
                    return [q[1]] if q[0] == "pid" else []
                while var in sc or var in pat_names(pat):
                    var += "_"
                sc2 = sc
                for q, src in zip(pat[1], it["srcs"]):
                    q = q[1] if q[0] == "pref" else q
                    if isinstance(src, tuple):
                        if q[0] == "pwild":
                            continue
                        if q[0] != "ptuple" or len(q[1]) != len(src[1]):
                            self.fail("closure parameter of a zipped chain (item of `iproduct!`)")
                        projs = [".1", ".2"] if len(src[1]) == 2 else [".1", ".2.1", ".2.2"]
                        for q_, t_, pj in zip(q[1], src[1], projs):
                            if q_[0] == "pid":
                                sc2 = sc2.bind(q_[1], "%s[(idx%d %s)%s]" % (t_, len(src[1]), var, pj), S)
                            elif q_[0] != "pwild":
                                self.fail("closure parameter of a zipped chain (item of `iproduct!`)")
                        continue
                    if q[0] == "pid":
                        sc2 = sc2.bind(q[1], "%s[%s]" % (src, var), S)
                    elif q[0] != "pwild":
                        self.fail("closure parameter of a zipped chain")
            else:
                vp = pat[1] if pat[0] == "pref" else pat
                if vp[0] != "pid":
                    self.fail("closure parameter of an `into_iter` chain")
                var = lname(vp[1])
                sc2 = sc.bind(vp[1], var, it["elem"])
            body = self.closure_body(clo[2], sc2)
            if name == "filter":
                if it["kind"] not in ("idx", "zip") or it["filter"] is not None:
                    self.fail("`.filter` in this position")
                if body[2] != B:
                    self.fail("non-boolean filter")
                it["filter"] = (var, body)
            else:
                it["map"] = (var, body)
            return it
        return None

    def zipped(self, parts, sc, e):
        """`izip!(a, b, &c)` / `a.zip(&c)` over tables (or `product2_iter` results) of one shape: the k-th item
        is the tuple of the k-th entries"""
        srcs, dims = [], []
        for x in parts:
            if x[0] == "macro" and x[1] == "iproduct":
                # `iproduct!(r0, r1[, r2])` over `let`-bound lazily mapped iterators (kind "It", see `seq`): the
                # cartesian product in row-major order (first factor outermost, as `product2_iter` of the multi_array
                # helpers), items are FLAT tuples; the item of flat index k pairs entry (idxN k).j of the j-th factor
                fs = [self.ex3(y, sc) if y[0] == "path" and len(y[1]) == 1 else None for y in x[2]]
                if len(fs) not in (2, 3) or any(f_ is None or f_[2][0] != "It" for f_ in fs):
                    self.fail("`iproduct!` of `%s` (only 2 or 3 `let`-bound mapped iterators)" % describe(x))
                srcs.append(("prod", [f_[0] for f_ in fs]))
                dims.append(" * ".join(f_[2][1] for f_ in fs))
                continue
            r = self.ex3(x, sc)
            if r[2][0] != "V" or r[2][2] != S:
                self.fail("zip of `%s`" % describe(e))
            srcs.append(paren(r[:2], P_ATOM))
            dims.append(r[2][1])
        if len(set(dims)) != 1:
            self.fail("zip of `%s`" % describe(e))
        return {"kind": "zip", "dim": self.dim(dims[0]), "srcs": srcs,
                "src": None, "filter": None, "map": None}

    def lam(self, it, what):
        var, body = it[what]
        t = "fun %s : Fin %s => %s" % (var, pd(it["dim"]), body[0])
        return t

    def iter_final(self, e, sc):
        recv, name, args = e[1], e[2], e[3]
        if name == "sum" and not args:
            it = self.iterator(recv, sc)
            if it is None:
                return None
            if it["map"] is None or it["filter"] is not None or it["kind"] == "vals" or it["map"][1][2] != S:
                self.fail("`.sum()` over this iterator shape")
            return ("Tab.sumIter (Vector.ofFn %s)" % self.lam(it, "map"), P_APP, S)
        if name == "all" and len(args) == 1 and args[0][0] == "closure":
            it = self.iterator(recv, sc)
            if it is None:
                return None
            if it["kind"] != "idx" or it["map"] or it["filter"]:
                self.fail("`.all()` over this iterator shape")
            it2 = self.iterator(("mcall", recv, "filter", args), sc)      # same binder discipline as filter
            return ("(List.finRange %s).all %s" % (it["dim"], self.lam(it2, "filter")), P_APP, B)
        if name in ("unwrap", "unwrap_or") and recv[0] == "mcall" and recv[2] == "reduce" and len(recv[3]) == 1:
            it = self.iterator(recv[1], sc)
            if it is None:
                return None
            f = recv[3][0]
            if f[0] != "path" or f[1] not in (["<V>", "min"], ["<V>", "max"], ["V", "min"], ["V", "max"]):
                self.fail("reduction function `%s`" % describe(f))
            which = f[1][1]
            if it["map"] is None or it["kind"] not in ("idx", "zip") or it["map"][1][2] != S:
                self.fail("`.reduce()` over this iterator shape")
            if name == "unwrap" and not args and it["filter"] is None:
                return ("Tab.reduce%s (Vector.ofFn %s)" % (which.capitalize(), self.lam(it, "map")), P_APP, S)
            if name == "unwrap" and not args and it["filter"] is not None:
                # `.filter(..).map(..).reduce(f).unwrap()` panics when nothing passes the filter; as for an empty
                # domain (Tab.reduce) the model's value there is NaN
                t = "Tab.reduceL Scalar.%s (((List.finRange %s).filter %s).map %s) (Tab.nanOf α)" % (
                    which, pd(it["dim"]), self.lam(it, "filter"), self.lam(it, "map"))
                return (t, P_APP, S)
            if name == "unwrap_or" and len(args) == 1 and it["filter"] is not None:
                dflt = self.ex3(args[0], sc)
                t = "Tab.reduceL Scalar.%s (((List.finRange %s).filter %s).map %s) %s" % (
                    which, pd(it["dim"]), self.lam(it, "filter"), self.lam(it, "map"), paren(dflt[:2], P_ATOM))
                return (t, P_APP, S)
            self.fail("`.reduce(..).%s(..)` over this iterator shape" % name)
        return None

    # -- `match op { A | B if g => e, .. }` : a flat guard ladder over FuseOp ---------------------------
    FUSEOPS = {"ACm": ".acm", "ECm": ".ecm", "Avg": ".avg", "Wgh": ".wgh"}

    def match_op(self, e, sc):
        s = self.ex3(e[1], sc)
        if s[2] != FUSE:
            self.fail("`match` on a value of kind %r" % (s[2],))
        groups = []            # [(patset, [(guard, body)])] ; arms with the same pattern set must be consecutive
        for pats, guard, body in e[2]:
            ps = []
            for p in pats:
                if p[0] != "ppath" or len(p[1]) != 2 or p[1][0] != "FuseOp" or p[1][1] not in self.FUSEOPS:
                    self.fail("match pattern (only FuseOp::X alternatives)")
                ps.append(self.FUSEOPS[p[1][1]])
            if groups and groups[-1][0] == ps:
                if groups[-1][1][-1][0] is None:
                    self.fail("unreachable match arm after an unguarded one")
                groups[-1][1].append((guard, body))
            else:
                for g in groups:
                    if set(g[0]) & set(ps):
                        self.fail("overlapping, non-consecutive match arms (cannot be grouped faithfully)")
                groups.append((ps, [(guard, body)]))
        seen = set()
        arms, ty = [], None
        for ps, gb in groups:
            if gb[-1][0] is not None:
                self.fail("guard ladder for %s not closed by an unguarded arm" % "|".join(ps))
            seen |= set(ps)
            # within a group the arms are tried in order: if g1 then e1 else if g2 then e2 ... else e_last
            t = None
            for guard, body in reversed(gb):
                b = self.ex3(body, sc)
                ty = ty or b[2]
                bt = "(" + b[0] + ")" if b[0].startswith(("let ", "match ")) else b[0]
                if guard is None:
                    t = bt
                else:
                    g = self.ex3(guard, sc)
                    chained = t.startswith("if ")
                    t = "if " + g[0] + " then\n" + ind(bt) + "\nelse" + (" " + t if chained else "\n" + ind(t))
            arms.append("| " + " | ".join(ps) + " =>\n" + ind(t, 4))
        if seen != set(self.FUSEOPS.values()):
            self.fail("non-exhaustive match over FuseOp")
        return ("match " + s[0] + " with\n" + "\n".join(arms), P_LOW, ty)

    # -- statements -------------------------------------------------------------------------
    def seq(self, stmts, i, tail, sc, deferred):
        if i == len(stmts):
            if tail is None:
                return self.no_tail(sc)
            if self.spec.get("panic_none") and not self.in_closure:
                v = self.ex3(tail, sc)
                return v[:2] if v[2][0] == "Opt" else app("some", v[:2])
            if self.in_closure and self.closure_raised:
                return app("Except.ok", self.ex3(tail, sc)[:2])
            if self.except_mode and not self.in_closure and not self.in_loop:
                v = self.ex3(tail, sc)
                return v[:2] if v[2][0] == "Exc" else app("Except.ok", v[:2])
            return self.ex(tail, sc)
        s = stmts[i]
        k = s[0]

        def rest(sc2):
            return self.seq(stmts, i + 1, tail, sc2, deferred)
        if k == "expr" and s[1][0] == "try":
            v = self.ex3(s[1][1], sc)
            if v[2][0] != "Exc" or not self.except_mode:
                self.fail("`?` on a value of kind %r" % (v[2],))
            return self.bind_exc(v, "_", rest(sc))
        if k == "let" and s[2] is not None and s[2][0] == "try" and s[1][0] == "pid":
            v = self.ex3(s[2][1], sc)
            n = s[1][1]
            if v[2][0] == "Exc" and self.except_mode:
                return self.bind_exc(v, lname(n), rest(sc.bind(n, lname(n), v[2][1], len(s[1]) > 2)))
            if v[2][0] == "Opt" and v[2][1] is not None and self.spec["rty"].startswith("Option "):
                r = rest(sc.bind(n, lname(n), v[2][1], len(s[1]) > 2))
                return ("match " + v[0] + " with\n| none => none\n| some " + lname(n) + " =>\n" + ind(r[0]), P_LOW)
            self.fail("`?` on a value of kind %r" % (v[2],))
        if k == "let" and s[2] is not None and s[1][0] == "pstruct" and s[1][1] == ["OpinionBase"] \
                and s[1][2] == [("simplex", None)] and s[1][3]:
            # `let OpinionBase { simplex, .. } = e;`
            v = self.ex3(s[2], sc)
            if v[2][0] == "Op":
                val = app("Opinion.simplex", v[:2])
                return self.mklet("simplex", val, rest(sc.bind("simplex", "simplex", ("Sx", v[2][1]))))
            if v[2][0] == "Exc" and v[2][1][0] == "Op" and self.in_closure and self.except_mode:
                # a panic inside the closure of `from_fn`: the closure yields an `Except`, collected by `sequenceE`
                self.closure_raised = True
                r = self.mklet("simplex", ("Opinion.simplex t_", P_APP),
                               rest(sc.bind("simplex", "simplex", ("Sx", v[2][1][1]))))
                return ("match " + v[0] + " with\n| .error e => .error e\n| .ok t_ =>\n" + ind("(" + r[0] + ")"), P_LOW)
            self.fail("destructuring of a value of kind %r" % (v[2],))
        if k == "let" and s[1][0] == "ptuple" and s[2] is not None and s[2][0] == "tuple" \
                and len(s[1][1]) == len(s[2][1]) >= 2 and all(q[0] == "pid" and len(q) == 2 for q in s[1][1]):
            # `let (x, y) = (e, f);` : every component is evaluated in the scope BEFORE the statement; rendered as
            # consecutive `let`s, which is the same as long as no new Lean name occurs in a component's text
            vs = [self.ex3(x, sc) for x in s[2][1]]
            names = [q[1] for q in s[1][1]]
            if len(set(names)) != len(names):
                self.fail("`let` tuple pattern binding a name twice")
            for v_ in vs:
                if v_[2] == ("Opt", None) or v_[2][0] in ("Exc", "It"):
                    self.fail("`let` tuple pattern on a component of kind %r" % (v_[2],))
                if any(re.search(r"(?<![\w.'])%s(?![\w'])" % re.escape(lname(n_)), v_[0]) for n_ in names):
                    self.fail("`let` tuple pattern whose right-hand side mentions a bound name")
            sc2 = sc
            for n_, v_ in zip(names, vs):
                sc2 = sc2.bind(n_, lname(n_), v_[2])
            r = rest(sc2)
            for n_, v_ in reversed(list(zip(names, vs))):
                r = self.mklet(lname(n_), v_[:2], r)
            return r
        if k == "let":
            if s[1][0] != "pid" or s[2] is None:
                self.fail("`let` form (pattern / deferred initialisation)")
            n = s[1][1]
            mutable = len(s[1]) > 2
            itv = self.iterator(s[2], sc) if s[2][0] == "mcall" else None
            if itv is not None:
                # `let r = izip!(t, a).map(|(&b, &a)| e);` : a lazily mapped zip of tables that a later `iproduct!`
                # consumes.  The closures of the subset are pure scalar arithmetic, so the iterator is determined by
                # the table of its items; the name gets the kind ("It", dim), which nothing but `iproduct!` accepts.
                if itv["kind"] != "zip" or itv["map"] is None or itv["filter"] is not None or itv["map"][1][2] != S \
                        or mutable or any(isinstance(x, tuple) for x in itv["srcs"]):
                    self.fail("`let` of an iterator of this shape `%s`" % describe(s[2]))
                val = ("Vector.ofFn " + self.lam(itv, "map"), P_APP)
                return self.mklet(lname(n), val, rest(sc.bind(n, lname(n), ("It", itv["dim"]))))
            acc = self.accumulating_from_fn(s[2], sc)
            if acc is not None:
                clo_stripped, accname, d = acc
                v = self.ex3(clo_stripped, sc)
                sc2 = sc.bind(n, lname(n), v[2], mutable)
                an = sc[accname][0]
                y = "i" if n != "i" and accname != "i" else "j"
                fold = ("(List.finRange %s).foldl (fun %s %s => %s + %s[%s]) %s" % (d, an, y, an, lname(n), y, an), P_APP)
                sc3 = sc2.bind(accname, an, S, True)
                return self.mklet(lname(n), v[:2], self.mklet(an, fold, rest(sc3)))
            v = self.ex3(s[2], sc)
            if v[2] == ("Opt", None):
                self.fail("untyped `None`")
            if v[2][0] == "Fn" and mutable:
                self.fail("`let mut %s = <closure>`" % n)
            if v[2][0] == "V" and v[2][2][0] == "Exc" and self.except_mode and not self.in_closure:
                # a container built by a closure that may panic: first error in index order, else the container
                vt = "(" + v[0] + ")" if v[1] < P_ATOM else v[0]
                r = rest(sc.bind(n, lname(n), ("V", v[2][1], v[2][2][1]), mutable))
                return ("match sequenceE " + vt + " with\n| .error e => .error e\n| .ok " + lname(n) + " =>\n" + ind("(" + r[0] + ")"), P_LOW)
            return self.mklet(lname(n), v[:2], rest(sc.bind(n, lname(n), v[2], mutable)))
        if k == "assign" and s[2][0] == "path" and len(s[2][1]) == 1:
            n = s[2][1][0]
            if n not in sc or n not in sc.mut:
                self.fail("assignment to `%s` (not a `mut` local)" % n)
            text, ty = sc[n]
            r = self.ex3(s[3], sc)
            if s[1] == "=":
                v = r[:2]
            else:
                if ty != S or r[2] != S:
                    self.fail("compound assignment on non-scalars")
                op = s[1][0]
                p = P_ADD if op in "+-" else P_MUL
                v = (text + " " + op + " " + paren(r[:2], p + 1), p)
            return self.mklet(text, v, rest(sc.bind(n, text, ty, True)))
        if k == "for":
            return self.for_loop(s, rest, sc)
        if k == "expr" and s[1][0] == "call" and s[1][1] == ("path", ["normalize_prob_dist"]) and len(s[1][2]) == 1:
            a = s[1][2][0]
            if a[0] == "un" and a[1] == "&" and a[2][0] == "path" and len(a[2][1]) == 1 and a[2][1][0] in sc.mut:
                n = a[2][1][0]
                text, ty = sc[n]
                if ty[0] == "V" and ty[2] == S:
                    # a `&mut` argument: the callee's final value of the parameter is the new value here
                    return self.mklet(text, app(NS + "normalize_prob_dist", (text, P_ATOM)), rest(sc.bind(n, text, ty, True)))
        if k == "assign" and s[1] == "=" and s[2][0] == "un" and s[2][1] == "*" and s[2][2][0] == "path" \
                and len(s[2][2][1]) == 1 and s[2][2][1][0] in sc.mut:
            n = s[2][2][1][0]                   # `*lhs = e;` through a `&mut` parameter
            text, ty = sc[n]
            v = self.ex3(s[3], sc)
            if v[2] == ty:
                return self.mklet(text, v[:2], rest(sc.bind(n, text, ty, True)))
            if v[2] == ("Opt", ty) and self.spec.get("panic_none"):
                r = rest(sc.bind(n, text, ty, True))
                return ("match " + v[0] + " with\n| none => none\n| some " + text + " =>\n" + ind(r[0]), P_LOW)
            self.fail("assignment `*%s = ..` of a value of kind %r" % (n, v[2]))
        if k == "ifs" and s[1][3] is None and self.spec.get("panic_none"):
            b = s[1][2]
            if b[2] is None and len(b[1]) == 1 and b[1][0][0] == "expr" and b[1][0][1][0] == "macro" \
                    and b[1][0][1][1] == "panic":
                c = self.ex3(s[1][1], sc)       # `if c { panic!(..); }` : the panic is the value `none`
                r = rest(sc)
                return (self.mkif(c[:2], ("none", P_ATOM), r, r[0].startswith("if ")), P_LOW)
        if k == "ifs" and s[1][3] is None:
            b = s[1][2]
            if b[2] is None and len(b[1]) == 1 and b[1][0][0] == "expr" and b[1][0][1][0] == "return" \
                    and b[1][0][1][1] is not None:
                c = self.ex3(s[1][1], sc)
                v = self.ex3(b[1][0][1][1], sc)
                r = rest(sc)
                return (self.mkif(c[:2], v[:2], r, r[0].startswith("if ")), P_LOW)
        self.fail("statement form `%s`" % describe(s))

    def bind_exc(self, v, name, r):
        """`E?; rest` : inside a loop body `Except.bind E fun _ => rest` (no auxiliary matcher, so that the fold
        can be compared syntactically with the model's `checkEntries`), elsewhere a `match` as in the model"""
        if self.in_loop:
            return ("Except.bind %s fun %s =>\n%s" % (paren(v[:2], P_ATOM), name, ind(r[0])), P_LOW)
        return ("match " + v[0] + " with\n| .error e => .error e\n| .ok " + name + " =>\n" + ind(r[0]), P_LOW)

    def no_tail(self, sc):
        rv = self.spec.get("result_var")
        if rv and rv in sc:
            if self.spec.get("panic_none"):
                return ("some " + sc[rv][0], P_APP)
            return (sc[rv][0], P_ATOM)
        self.fail("block without a value")

    def accumulating_from_fn(self, e, sc):
        """`U::from_fn(|y| { let a = E; acc += a; a })` with `acc` an outer `mut` scalar: returns
        (the from_fn call without the update, acc, dim).  from_fn calls the closure for the indexes in
        order, so `acc` ends as the left fold of `+` over the produced entries."""
        if not (e[0] == "call" and e[1][0] == "path" and len(e[1][1]) == 2 and e[1][1][1] == "from_fn"
                and e[1][1][0] in self.dims and len(e[2]) == 1 and e[2][0][0] == "closure"):
            return None
        clo = e[2][0]
        b = clo[2]
        if b[0] != "block":
            return None
        ups = [st for st in b[1] if st[0] == "assign"]
        if not ups:
            return None
        if len(ups) != 1 or ups[0][1] != "+=" or ups[0][2][0] != "path" or ups[0][2][1][0] not in sc.mut \
                or ups[0][3] != b[2] or b[2] is None or b[2][0] != "path":
            self.fail("closure with a side effect other than `acc += <the produced entry>`")
        stripped = ("block", [st for st in b[1] if st[0] != "assign"], b[2])
        return (("call", e[1], [("closure", clo[1], stripped)]), ups[0][2][1][0], self.dim(self.dims[e[1][1][0]]))

    def for_loop_exc(self, s, rest, sc):
        """`for (i, &x) in t.iter_with() { check(x)?; acc += x; }` : a left fold in the Except monad"""
        pat, it, body = s[1], s[2], s[3]
        itd = self.iterator(it, sc)
        if itd is None or itd["kind"] not in ("idx", "pairs") or itd["map"] or itd["filter"] or not self.except_mode:
            self.fail("`for` with `?` over this iterator / in this function")
        d = itd["dim"]
        if itd["kind"] == "pairs":
            if pat[0] != "ptuple" or len(pat[1]) != 2:
                self.fail("`for` pattern over `iter_with()`")
            var, rn = self.idx_binder(pat[1][0], d)
            vp = pat[1][1][1] if pat[1][1][0] == "pref" else pat[1][1]
            if rn is None or vp[0] != "pid":
                self.fail("`for` pattern over `iter_with()`")
            sc_i = sc.bind(rn, var, ("I", d)).bind(vp[1], "%s[%s]" % (itd["src"], var), itd["elem"])
        else:
            var, rn = self.idx_binder(pat, d)
            sc_i = sc.bind(rn, var, ("I", d)) if rn else sc
        if body[2] is not None:
            self.fail("`for` body with a value")
        top = [st for st in body[1] if st[0] == "assign"]
        if sum(1 for _ in walk_kind(body, "assign")) != len(top) or not top:
            self.fail("`for` body: assignments must be top-level statements of the body")
        names = {st[2][1][0] if st[2][0] == "path" and len(st[2][1]) == 1 else None for st in top}
        if len(names) != 1 or None in names:
            self.fail("`for` body updating more than one variable")
        v = names.pop()
        if v not in sc.mut or sc[v][1] != S:
            self.fail("`for` body updating `%s` (not a `mut` scalar local)" % v)
        text = sc[v][0]
        was = self.in_loop
        self.in_loop = True
        inner = self.seq(body[1], 0, ("call", ("path", ["Ok"]), [("path", [v])]), sc_i.bind(v, text, S, True), set())
        self.in_loop = was
        fold = "(List.finRange %s).foldlM (m := Except Label) (fun (%s : α) (%s : Fin %s) =>\n%s) %s" % (
            d, text, var, d, ind(inner[0], 4), text)
        return self.bind_exc((fold, P_APP, ("Exc", S)), text, rest(sc.bind(v, text, S, True)))

    def for_loop(self, s, rest, sc):
        if contains_try(s[3]):
            return self.for_loop_exc(s, rest, sc)
        pat, it, body = s[1], s[2], s[3]
        itd = self.iterator(it, sc)
        if itd is None or itd["kind"] != "idx" or itd["map"] or itd["filter"]:
            self.fail("`for` over something else than `T::indexes()`")
        d = itd["dim"]
        var, rn = self.idx_binder(pat, d)
        if body[2] is not None:
            self.fail("`for` body with a value")
        nassign = sum(1 for _ in walk_kind(body, "assign"))
        top = [st for st in body[1] if st[0] == "assign"]
        if nassign != len(top) or not top:
            self.fail("`for` body: assignments must be top-level statements of the body")
        sc_i = sc.bind(rn, var, ("I", d)) if rn else sc
        # (B) element-wise update  `p[i] op= e`
        if len(body[1]) == 1 and top[0][2][0] == "index":
            lhs = top[0][2]
            if lhs[1][0] == "path" and len(lhs[1][1]) == 1 and lhs[1][1][0] in sc.mut and lhs[2] == ("path", [rn]):
                p = lhs[1][1][0]
                text, ty = sc[p]
                if ty[0] != "V" or ty[1] != d or ty[2] != S:
                    self.fail("element-wise update of `%s`" % p)
                if any(True for x in walk_kind(top[0][3], "path") if x[1] == [p]):
                    self.fail("element-wise update whose right-hand side reads the updated table")
                r = self.ex3(top[0][3], sc_i)
                if top[0][1] == "=":
                    v = r[0]
                else:
                    op = top[0][1][0]
                    pr = P_ADD if op in "+-" else P_MUL
                    v = "%s[%s] %s %s" % (text, var, op, paren(r[:2], pr + 1))
                val = ("Vector.ofFn fun %s : Fin %s => %s" % (var, d, v), P_LOW)
                return self.mklet(text, val, rest(sc.bind(p, text, ty, True)))
        # (A) fold: every assignment targets the same scalar `mut` local
        names = {st[2][1][0] if st[2][0] == "path" and len(st[2][1]) == 1 else None for st in top}
        if len(names) != 1 or None in names:
            self.fail("`for` body updating more than one variable")
        v = names.pop()
        if v not in sc.mut or sc[v][1] != S:
            self.fail("`for` body updating `%s` (not a `mut` scalar local)" % v)
        text = sc[v][0]
        inner = self.seq(body[1], 0, ("path", [v]), sc_i.bind(v, text, S, True), set())
        it_ = inner[0]
        lamb = "fun %s %s =>" % (text, var)
        lamb = lamb + " " + it_ if "\n" not in it_ else lamb + "\n" + ind("(" + it_ + ")")
        val = ("(List.finRange %s).foldl (%s) %s" % (d, lamb, text), P_APP)
        return self.mklet(text, val, rest(sc.bind(v, text, S, True)))

    # -- definitions ------------------------------------------------------------------------
    def define(self, lean_name):
        sc = Scope()
        binders = []
        try:
            self.selfkind = self.self_type()[0] if self.item.ctx else None
        except Unsupported:
            self.selfkind = None
        self.param_rust = {}
        for prm in self.item.params:
            pat, ty = prm[0], prm[1]
            if pat == "self":
                t = self.self_type()
                sc = sc.bind("self", "self", t)
                binders.append(("self", t))
                for extra_after, btext, _ in self.spec.get("extra", ()):
                    if extra_after == "self":
                        binders.append((btext, None))
                continue
            if pat[0] != "pid":
                self.fail("parameter pattern")
            n = pat[1]
            t = self.spec.get("param_kinds", {}).get(n) or self.rust_type(ty)
            self.param_rust[n] = self.rust_class(ty)
            sc = sc.bind(n, lname(n), t, len(pat) > 2 or re.match(r"&('\w+ )?mut", ty) is not None)
            binders.append((lname(n), t))
            for extra_after, btext, _ in self.spec.get("extra", ()):
                if extra_after == n:
                    binders.append((btext, None))
        body = self.item.body
        t = self.seq(body[1], 0, body[2], sc, set())
        dre = r"\b(?:%s)\b" % "|".join(ALL_DIMS)
        for _, t_ in binders:
            for d in re.findall(dre, lean_type(t_)) if t_ else []:
                self.used_dims.add(d)
        for d in re.findall(dre, self.spec["rty"]):
            self.used_dims.add(d)
        used = set()
        for d in self.used_dims:
            used |= set(re.findall(dre, d))
        dims = "".join(" {%s : Nat}" % d for d in ALL_DIMS if d in used)
        bs = " ".join("(%s : %s)" % (n, lean_type(t_)) if t_ else n for n, t_ in binders)
        return "def %s {α : Type} [Scalar α]%s %s: %s :=\n%s\n" % (lean_name, dims, bs + " " if bs else "", self.spec["rty"], ind(t[0]))


def walk_kind(e, kind):
    if isinstance(e, tuple):
        if e and e[0] == kind:
            yield e
        for x in e:
            yield from walk_kind(x, kind)
    elif isinstance(e, list):
        for x in e:
            yield from walk_kind(x, kind)


MUL_TARGETS = [
    # (lean name, rust fn, regex on the enclosing impl header, spec)
    ("Simplex_vacuous", "vacuous", SX, {"rty": "Simplex α n", "dims": {"T": "n"}}),
    ("Simplex_is_vacuous", "is_vacuous", SX, {"rty": "Bool", "dims": {"T": "n"}}),
    ("Simplex_is_dogmatic", "is_dogmatic", SX, {"rty": "Bool", "dims": {"T": "n"}}),
    ("OpinionRef_is_vacuous", "is_vacuous", OPREF, {"rty": "Bool", "dims": {"T": "n"}}),
    ("OpinionRef_is_dogmatic", "is_dogmatic", OPREF, {"rty": "Bool", "dims": {"T": "n"}}),
    ("normalize_prob_dist", "normalize_prob_dist", r"^$", {"rty": "Tab α n", "result_var": "p"}),
    ("Simplex_normalized", "normalized", SX, {"rty": "Simplex α n"}),
    ("OpinionRef_projection", "projection", r"Projection < Idx , T > for OpinionRef", {"rty": "Tab α n"}),
    ("Simplex_projection", "projection", SX, {"rty": "Tab α n"}),
    ("max_uncertainty", "max_uncertainty", r"MaxUncertainty < Idx , V , T > for Simplex", {"rty": "α"}),
    ("uncertainty_maximized", "uncertainty_maximized", r"MaxUncertainty < Idx , V , T > for Simplex",
     {"rty": "Simplex α n"}),
    ("Simplex_discount", "discount", r"Discount < T , V > for Simplex", {"rty": "Simplex α n", "dims": {"T": "n"}}),
    ("multi_check_simplex", "check_simplex", r"^$", {"rty": "Except Label Unit"}),
    ("multi_check_base_rate", "check_base_rate", r"^$", {"rty": "Except Label Unit"}),
    ("Simplex_try_new", "try_new", SX, {"rty": "Except Label (Simplex α n)"}),
    ("Simplex_new", "new", SX, {"rty": "Except Label (Simplex α n)"}),
    ("Opinion_try_new", "try_new", OPN, {"rty": "Except Label (Opinion α n)"}),
    ("Opinion_new", "new", OPN, {"rty": "Except Label (Opinion α n)"}),
    ("Opinion_normalized", "normalized", OPN, {"rty": "Opinion α n"}),
    ("compute_simlex", "compute_simlex", r"^$", {"rty": "Simplex α n"}),
    ("compute_base_rate", "compute_base_rate", r"^$",
     {"rty": "Tab α n", "dims": {"T": "n"}, "extra": [("op", "(same : Bool)", None)],
      "ptr_eq": (["lhs.base_rate", "rhs.base_rate"], "same")}),
    ("fuse", "fuse", r"Fuse < OpinionRef < 'a , T , V > , OpinionRef < 'a , T , V > , Idx > for FuseOp",
     {"rty": "Opinion α n", "extra": [("self", "(same : Bool)", None)], "same_arg": "same"}),
    ("OpinionRef_discount", "discount", r"Discount < T , V > for OpinionRef", {"rty": "Opinion α n", "dims": {"T": "n"}}),
    ("Opinion_discount", "discount", r"Discount < T , V > for Opinion <", {"rty": "Opinion α n", "dims": {"T": "n"}}),
    ("fuse_ref_simplex", "fuse", r"Fuse < OpinionRef < 'a , T , V > , & 'a Simplex < T , V > , Idx > for FuseOp",
     {"rty": "Opinion α n"}),
    ("fuse_opinion_simplex", "fuse", r"Fuse < & Opinion < T , V > , & Simplex < T , V > , Idx > for FuseOp",
     {"rty": "Opinion α n"}),
    ("fuse_opinion_opinion", "fuse", r"Fuse < & Opinion < T , V > , & Opinion < T , V > , Idx > for FuseOp",
     {"rty": "Opinion α n", "extra": [("self", "(same : Bool)", None)], "same_arg": "same"}),
    ("fuse_simplex_simplex", "fuse", r"Fuse < & Simplex < T , V > , & Simplex < T , V > , Idx > for FuseOp",
     {"rty": "Option (Simplex α n)", "panic_none": True}),
    ("fuse_assign_opinion_ref", "fuse_assign", r"FuseAssign < Opinion < T , V > , OpinionRef < 'a , T , V > , Idx > for FuseOp",
     {"rty": "Opinion α n", "extra": [("self", "(same : Bool)", None)], "same_arg": "same", "result_var": "lhs"}),
    ("fuse_assign_opinion_opinion", "fuse_assign", r"FuseAssign < Opinion < T , V > , & Opinion < T , V > , Idx > for FuseOp",
     {"rty": "Opinion α n", "extra": [("self", "(same : Bool)", None)], "same_arg": "same", "result_var": "lhs"}),
    ("fuse_assign_opinion_simplex", "fuse_assign", r"FuseAssign < Opinion < T , V > , & Simplex < T , V > , Idx > for FuseOp",
     {"rty": "Opinion α n", "result_var": "lhs"}),
    ("fuse_assign_simplex_simplex", "fuse_assign", r"FuseAssign < Simplex < T , V > , & Simplex < T , V > , Idx > for FuseOp",
     {"rty": "Option (Simplex α n)", "panic_none": True, "result_var": "lhs"}),
    ("mbr", "mbr", r"^$", {"rty": "Option (Tab α m)", "cond": {"Cond": "m"}}),
    ("projections", "projections", r"^$", {"rty": "Vector (Tab α m) n", "cond": {"Cond": "m"}, "dims": {"Cond": "n"}}),
    ("deduce_of", "deduce_of", r"^$", {"rty": "Opinion α m", "cond": {"Cond": "m"}}),
    ("inverse", "inverse", r"InverseCondition < X , Y , T , U , V > for Cond",
     {"rty": "Vector (Simplex α n) m", "cond": {"Cond": "m"}}),
    ("OpinionRef_deduce", "deduce", r"Deduction < X , Y , & 'a Cond , U > for OpinionRef",
     {"rty": "Option (Opinion α m)", "cond": {"Cond": "m"}}),
    ("OpinionRef_deduce_with", "deduce_with", r"Deduction < X , Y , & 'a Cond , U > for OpinionRef",
     {"rty": "Opinion α m", "cond": {"Cond": "m"}, "param_kinds": {"f": ("Thunk", ("V", "m", S))}}),
    ("Opinion_deduce", "deduce", r"Deduction < X , Y , & 'a Cond , U > for & 'a Opinion",
     {"rty": "Option (Opinion α m)", "cond": {"Cond": "m"}}),
    ("Opinion_deduce_with", "deduce_with", r"Deduction < X , Y , & 'a Cond , U > for & 'a Opinion",
     {"rty": "Opinion α m", "cond": {"Cond": "m"}, "param_kinds": {"f": ("Thunk", ("V", "m", S))}}),
    ("abduce_with", "abduce_with", r"Abduction < & 'a Cond , X , Y , T , U > for & 'a Simplex",
     {"rty": "Opinion α n", "cond": {"Cond": "m"}}),
    ("abduce", "abduce", r"Abduction < & 'a Cond , X , Y , T , U > for & 'a Simplex",
     {"rty": "Option (Opinion α n)", "cond": {"Cond": "m"}}),
    ("OpinionRef_abduce_with", "abduce_with", r"Abduction < & 'a Cond , X , Y , T , U > for OpinionRef",
     {"rty": "Opinion α n", "cond": {"Cond": "m"}}),
    ("OpinionRef_abduce", "abduce", r"Abduction < & 'a Cond , X , Y , T , U > for OpinionRef",
     {"rty": "Option (Opinion α n)", "cond": {"Cond": "m"}}),
    ("Opinion_abduce_with", "abduce_with", r"Abduction < & 'a Cond , X , Y , T , U > for & 'a Opinion",
     {"rty": "Opinion α n", "cond": {"Cond": "m"}}),
    ("Opinion_abduce", "abduce", r"Abduction < & 'a Cond , X , Y , T , U > for & 'a Opinion",
     {"rty": "Option (Opinion α n)", "cond": {"Cond": "m"}}),
]
PROD2 = r"Product2 < Opinion1dRef < 'a , V , D0 > , Opinion1dRef < 'a , V , D1 > > for Opinion < MArr2 < V , D0 , D1 > , V >"
PROD3 = (r"Product3 < Opinion1dRef < 'a , V , D0 > , Opinion1dRef < 'a , V , D1 > , Opinion1dRef < 'a , V , D2 > > "
         r"for Opinion < MArr3 < V , D0 , D1 , D2 > , V >")
NL_TARGETS = [
    ("product2", "product2", PROD2,
     {"rty": "Except Label (Opinion α (n0 * n1))", "dims": {"D0": "n0", "D1": "n1", "MArr2": "n0 * n1"},
      "guards": ["marr_unlabeled_2"]}),
    ("product3", "product3", PROD3,
     {"rty": "Except Label (Opinion α (n0 * n1 * n2))",
      "dims": {"D0": "n0", "D1": "n1", "D2": "n2", "MArr3": "n0 * n1 * n2"}, "guards": ["marr_unlabeled_3"]}),
    ("Simplex1d_into_opinion", "into_opinion", r"^impl < V , const N : usize > Simplex1d < V , N >",
     {"rty": "Except Label (Opinion α n)", "dims": {"N": "n"}}),
]


APPROX_TARGETS = [
    ("is_in_range", "is_in_range", r"^$", {"emit": BaseEmit}),
    ("in_unit_interval", "in_unit_interval", r"^$", {"emit": BaseEmit, "inline": ["is_in_range"]}),
    ("is_one", "is_one", r"^$", {"emit": BaseEmit}),
    ("is_zero", "is_zero", r"^$", {"emit": BaseEmit}),
]
ERRORS_TARGETS = [
    ("check_unit_interval", "check_unit_interval", r"^$", {"emit": BaseEmit, "label_param": "label"}),
    ("check_is_one", "check_is_one", r"^$", {"emit": BaseEmit, "label_param": "label"}),
]
CONVERT_TARGETS = [
    ("BOpinion_into_Opinion1d", "from", r"impl From < BOpinion < \$ft > > for Opinion1d < \$ft , 2 >$", {"emit": ConvEmit}),
    ("Opinion1d_into_BOpinion", "from", r"impl From < Opinion1d < \$ft , 2 > > for BOpinion < \$ft >$", {"emit": ConvEmit}),
    ("Opinion1d_ref_into_BOpinion", "from", r"impl From < & Opinion1d < \$ft , 2 > > for BOpinion < \$ft >$", {"emit": ConvEmit}),
]
for _t in BI_TARGETS:
    _t[3].setdefault("emit", BiEmit)
# ---- comparisons (property C20).  Approximate comparisons of BOpinion<$ft>: translated bodies (CmpEmit); the
# `default_*` functions and `type Epsilon` are text pins (guard groups bop_cmp_*).
CMP_TARGETS = [
    ("BOpinion_abs_diff_eq", "abs_diff_eq", CMP_CTX % "AbsDiffEq",
     {"owner": "BOpinion", "emit": CmpEmit, "guards": ["bop_cmp_epsilon"]}),
    ("BOpinion_relative_eq", "relative_eq", CMP_CTX % "RelativeEq",
     {"owner": "BOpinion", "emit": CmpEmit, "guards": ["bop_cmp_epsilon", "bop_cmp_max_relative"]}),
    ("BOpinion_ulps_eq", "ulps_eq", CMP_CTX % "UlpsEq",
     {"owner": "BOpinion", "emit": CmpEmit, "guards": ["bop_cmp_epsilon", "bop_cmp_max_ulps"]}),
]
# `==`: derived (`#[derive(.. PartialEq ..)]`, rust name = the struct) or hand-written (`fn eq`): marker definitions
# eq_<Type> (EqEmit).  BSimplex ≙ α × α × α (b, d, u) = the fields of Simplex1d<T, 2> = Simplex<[T; 2], T>, in the
# declaration order belief, uncertainty of `struct Simplex` (pinned: "also" / "pins").
SIMPLEX_FIELDS = [("belief", "T"), ("uncertainty", "V")]
BI_EQ_TARGETS = [
    ("eq_BSimplex", "BSimplex", None,
     {"emit": EqEmit, "derived": "BSimplex", "binders": "(x y : α × α × α)",
      "fields": [("0", "Simplex1d<T,2>", "Scalar.eq x.1 y.1 && Scalar.eq x.2.1 y.2.1 && Scalar.eq x.2.2 y.2.2")],
      "also": [("mul.rs", "Simplex", SIMPLEX_FIELDS)],
      "pins": [("mul/non_labeled.rs", r"pub type Simplex1d < V , const N : usize > = Simplex < \[ V ; N \] , V > ;",
                "`pub type Simplex1d<V, const N: usize> = Simplex<[V; N], V>;`")]}),
    ("eq_BOpinion", "BOpinion", None,
     {"emit": EqEmit, "derived": "BOpinion", "binders": "(x y : BOp α)",
      "fields": [("simplex", "BSimplex<T>", "SLV.Gen.eq_BSimplex (x.b, x.d, x.u) (y.b, y.d, y.u)"),
                 ("base_rate", "T", "Scalar.eq x.a y.a")]}),
]
BI_TARGETS += CMP_TARGETS + BI_EQ_TARGETS
MUL_EQ_TARGETS = [
    ("eq_Simplex", "Simplex", None,
     {"emit": EqEmit, "derived": "Simplex", "binders": "{n : Nat} (x y : Simplex α n)",
      "fields": [("belief", "T", "Cmp.tabEq x.b y.b"), ("uncertainty", "V", "Scalar.eq x.u y.u")]}),
    ("eq_OpinionBase", "OpinionBase", None,
     {"emit": EqEmit, "derived": "OpinionBase", "binders": "{n : Nat} (x y : Opinion α n)",
      "fields": [("simplex", "S", "SLV.Gen.Mul.eq_Simplex x.simplex y.simplex"), ("base_rate", "T", "Cmp.tabEq x.a y.a")],
      "pins": [("mul.rs", r"pub type Opinion < T , U > = OpinionBase < Simplex < T , U > , T > ;",
                "`pub type Opinion<T, U> = OpinionBase<Simplex<T, U>, T>;`"),
               ("mul.rs", r"pub type OpinionRef < 'a , T , U > = OpinionBase < & 'a Simplex < T , U > , & 'a T > ;",
                "`pub type OpinionRef<'a, T, U> = OpinionBase<&'a Simplex<T, U>, &'a T>;`")]}),
]
MARR_EQ_TARGETS = [
    ("eq_MArr1", "MArr1", None,
     {"emit": EqEmit, "derived": "MArr1", "binders": "{n : Nat} (x y : Tab α n)",
      "fields": [("0", "Vec<V>", "Cmp.tabEq x y")]}),
    ("eq_MArr2", "MArr2", None,
     {"emit": EqEmit, "derived": "MArr2", "binders": "{n0 n1 : Nat} (x y : Tab α (n0 * n1))",
      "fields": [("0", "Vec<MArr1<V,K1>>", "Cmp.tabEq x y")], "needs": ["eq_MArr1"]}),
    ("eq_MArr3", "MArr3", None,
     {"emit": EqEmit, "derived": "MArr3", "binders": "{n0 n1 n2 : Nat} (x y : Tab α (n0 * n1 * n2))",
      "fields": [("0", "Vec<MArr2<V,K1,K2>>", "Cmp.tabEq x y")], "needs": ["eq_MArr1", "eq_MArr2"]}),
]
MARRD_EQ_TARGETS = [
    ("eq_MArrD1", "eq", r"PartialEq for MArrD1 <",
     {"emit": EqEmit, "manual": "MArrD1", "binders": "{n : Nat} (x y : Tab α n)",
      "fields": [("_marker", "PhantomData<D0>", None), ("inner", "Vec<V>", "Cmp.tabEq x y")]}),
    ("eq_MArrD2", "eq", r"PartialEq for MArrD2 <",
     {"emit": EqEmit, "manual": "MArrD2", "binders": "{n0 n1 : Nat} (x y : Tab α (n0 * n1))",
      "fields": [("inner", "MArrD1<D0,MArrD1<D1,V>>", "Cmp.tabEq x y")], "needs": ["eq_MArrD1"]}),
    ("eq_MArrD3", "eq", r"PartialEq for MArrD3 <",
     {"emit": EqEmit, "manual": "MArrD3", "binders": "{n0 n1 n2 : Nat} (x y : Tab α (n0 * n1 * n2))",
      "fields": [("inner", "MArrD1<D0,MArrD2<D1,D2,V>>", "Cmp.tabEq x y")], "needs": ["eq_MArrD1", "eq_MArrD2"]}),
]
LB_TARGETS = [
    ("product2_labeled", "product2", r"Product2 < OpinionRefD1 < 'a , D0 , V > , OpinionRefD1 < 'a , D1 , V > > for OpinionD2",
     {"rty": "Opinion α (n0 * n1)", "dims": {"D0": "n0", "D1": "n1", "MArrD2": "n0 * n1"}, "guards": ["marr_labeled_2"]}),
    ("product3_labeled", "product3", r"Product3 < OpinionRefD1 < 'a , D0 , V > , OpinionRefD1 < 'a , D1 , V > , OpinionRefD1 < 'a , D2 , V > > for OpinionD3",
     {"rty": "Opinion α (n0 * n1 * n2)", "dims": {"D0": "n0", "D1": "n1", "D2": "n2", "MArrD3": "n0 * n1 * n2"},
      "guards": ["marr_labeled_3"]}),
]
MERGE = r"MergeJointConditions2 < V , X1 , X2 , X1X2 , Y , CYX1 , CYX2 , TX1 , TX2 , TY , U > for CX1X2Y"
MERGE_TARGETS = [
    ("merge_cond2_unlabeled", "merge_cond2", MERGE,
     {"rty": "Except Label (Vector (Simplex α m) (n1 * n2))", "cond": {"CYX1": "m", "CYX2": "m"}, "family": "unlabeled",
      "guards": ["marr_unlabeled_2"]}),
    ("merge_cond2_labeled", "merge_cond2", MERGE,
     {"rty": "Vector (Simplex α m) (n1 * n2)", "cond": {"CYX1": "m", "CYX2": "m"}, "family": "labeled",
      "guards": ["marr_labeled_2"]}),
]
for _t in MUL_TARGETS + NL_TARGETS + LB_TARGETS + MERGE_TARGETS:
    _t[3].setdefault("emit", MulEmit)

OUTPUTS = {
    "Bi.lean": {
        "ns": "SLV.Gen", "imports": ["SLV.Model.Bi", "SLV.Model.Eq"],
        "units": [("approx_ext.rs", APPROX_TARGETS, []), ("errors.rs", ERRORS_TARGETS, []),
                  ("bi.rs", BI_TARGETS, ["bi.rs"]), ("convert.rs", CONVERT_TARGETS, ["bi.rs", "mul.rs"])],
        "doc": "  Conventions: self ↦ x, rhs ↦ y, cond[i] ↦ cᵢ : α × α × α (b, d, u); Self::new / Self::try_new ↦\n"
               "  BOp.tryNew (panic ≙ error); `E?;` / `E.unwrap();` ↦ match on Except; an `if` statement that only\n"
               "  assigns deferred `let`s receives a copy of the continuation in every branch.\n"
               "  Comparisons ([CmpScalar α]): other ↦ y, Self::Epsilon ↦ α, u32 ↦ Nat, r.abs_diff_eq(s, e) ↦ Cmp.absDiffEq r s e,\n"
               "  r.relative_eq(s, e, m) ↦ Cmp.relativeEq r s e m, r.ulps_eq(s, e, k) ↦ Cmp.ulpsEq r s e k on scalar components;\n"
               "  eq_<Type>: marker of the DERIVED `==` (`&&` of the fields' `==` in declaration order; exists only while the\n"
               "  `#[derive(.. PartialEq ..)]` guard holds).\n"
               "  Tie theorems: SLV/Gen/BiTie.lean.\n"},
    "Mul.lean": {
        "ns": "SLV.Gen.Mul", "imports": ["SLV.Model.Fuse", "SLV.Model.Cond", "SLV.Model.Prod", "SLV.Model.Eq"],
        "units": [("mul.rs", MUL_TARGETS, ["mul.rs"]), ("mul/non_labeled.rs", NL_TARGETS, ["mul.rs"]),
                  ("mul/labeled.rs", LB_TARGETS, ["mul.rs"]), ("mul.rs", MERGE_TARGETS, ["mul.rs"]),
                  ("mul.rs", MUL_EQ_TARGETS, []), (MU, MARR_EQ_TARGETS, [], True), (ML, MARRD_EQ_TARGETS, [], True)],
        "doc": "  Conventions: a container type T/U/Cond over index type Idx|X ↦ size n, over Y ↦ size m;\n"
               "  T::from_fn(|i| e), T::map(|i| e) ↦ Vector.ofFn fun i : Fin n => e;  T::indexes().map(f).sum() ↦\n"
               "  Tab.sumIter (Vector.ofFn f);  .reduce(<V>::min).unwrap() ↦ Tab.reduceMin (Vector.ofFn f);\n"
               "  `for i in T::indexes() { acc = .. }` ↦ (List.finRange n).foldl;  `for i .. { p[i] /= s }` ↦\n"
               "  Vector.ofFn fun i => p[i] / s;  a `&mut` parameter is returned;  `if c { return e; }` ↦ if c then e else ..;\n"
               "  `match op { A | B if g => e, .. }` ↦ match op with | A | B => if g then e else ..\n"
               "  eq_<Type> ([CmpScalar α]): marker of the derived (Simplex, OpinionBase, MArr1-3) / hand-written (MArrD1-3) `==`;\n"
               "  containers are row-major flattened tables, their `==` is the cell-wise Cmp.tabEq; exists only while the\n"
               "  convention guard (derive line / `self.inner == other.inner`) holds.\n"
               "  Tie theorems: SLV/Gen/MulTie.lean.\n"},
}


# ------------------------------------------------------------------------------------------------
# 9. command line
# ------------------------------------------------------------------------------------------------
def find_lean_root(out_dir):
    d = os.path.abspath(out_dir)
    while d != os.path.dirname(d):
        if os.path.exists(os.path.join(d, "lakefile.toml")) or os.path.exists(os.path.join(d, "lakefile.lean")):
            return d
        d = os.path.dirname(d)
    return None


def lean_errors(text, lean_root, tag):
    """elaborate `text` with `lake env lean`; -> {lean def name: first error line} ('?' for unattributable errors),
    or None when Lean cannot be run"""
    import subprocess, tempfile
    fd, path = tempfile.mkstemp(prefix="rs2lean_%s_" % tag, suffix=".lean")
    try:
        with os.fdopen(fd, "w") as f:
            f.write(text)
        try:
            pr = subprocess.run(["lake", "env", "lean", path], cwd=lean_root, stdout=subprocess.PIPE,
                                stderr=subprocess.STDOUT, text=True, timeout=600)
        except (OSError, subprocess.TimeoutExpired) as e:
            sys.stderr.write("rs2lean: validation skipped (%s)\n" % e)
            return None
        lines = text.split("\n")
        bad = {}
        for m in re.finditer(r"^%s:(\d+):\d+: error:? ?(.*)$" % re.escape(path), pr.stdout, flags=re.M):
            ln = int(m.group(1))
            name = "?"
            for i in range(min(ln, len(lines)) - 1, -1, -1):
                mm = re.match(r"def ([\w']+)", lines[i])
                if mm:
                    name = mm.group(1)
                    break
            bad.setdefault(name, m.group(2).strip() or "error")
        if pr.returncode != 0 and not bad:
            bad["?"] = pr.stdout.strip().split("\n")[0][:200]
        return bad
    finally:
        try:
            os.remove(path)
        except OSError:
            pass


def validated(fn, src_dir, out_dir, lean_root):
    """generate `fn`; every definition that Lean rejects (ill-typed output of the translator) becomes a hole, so that
    the generated MODULE always compiles and only the ties of the affected functions fail.  The verdict is cached
    per generated text in <tmpdir>/rs2lean_validated.json."""
    import json
    text, holes = generate(fn, src_dir)
    if lean_root is None:
        return text, holes
    import tempfile
    cache_path = os.path.join(os.path.dirname(os.path.dirname(os.path.abspath(__file__))), "work", "rs2lean_validated.json")
    os.makedirs(os.path.dirname(cache_path), exist_ok=True)
    try:
        cache = json.load(open(cache_path))
    except (OSError, ValueError):
        cache = {}
    key = fn + ":" + sha(text)
    forced = cache.get(key)
    if forced is None:
        forced = {}
        cur = text
        for _ in range(6):
            bad = lean_errors(cur, lean_root, fn.split(".")[0])
            if bad is None:
                return text, holes            # Lean not available: no validation
            if not bad:
                break
            if "?" in bad and len(bad) == 1:
                raise Fatal("Lean rejects the generated file outside any definition: %s" % bad["?"])
            for name, msg in bad.items():
                if name != "?":
                    forced[name] = "the generated definition is rejected by Lean (%s)" % msg[:160]
            cur, _ = generate(fn, src_dir, forced)
        else:
            raise Fatal("generated file still rejected by Lean after removing %s" % sorted(forced))
        cache[key] = forced
        if len(cache) > 400:
            cache = dict(list(cache.items())[-200:])
        try:
            os.makedirs(out_dir, exist_ok=True)
            with open(cache_path + ".tmp", "w") as f:
                json.dump(cache, f)
            os.replace(cache_path + ".tmp", cache_path)
        except OSError:
            pass
    if forced:
        return generate(fn, src_dir, forced)
    return text, holes


def main():
    ap = argparse.ArgumentParser(description=__doc__, formatter_class=argparse.RawDescriptionHelpFormatter)
    ap.add_argument("--src", default="/repo/src", help="the crate's src directory")
    ap.add_argument("--out", default="/verif/lean/SLV/Gen", help="directory receiving Bi.lean / Mul.lean")
    ap.add_argument("--only", choices=["bi", "mul"], help="produce one output file only")
    ap.add_argument("--stdout", action="store_true", help="print instead of writing files")
    ap.add_argument("--validate", action="store_true",
                    help="elaborate the generated text with `lake env lean` and turn rejected definitions into holes")
    ap.add_argument("--lean-root", default=None, help="lake project used by --validate (default: found above --out, "
                    "else /verif/lean)")
    a = ap.parse_args()
    jobs = [n for n in OUTPUTS if a.only is None or n.lower().startswith(a.only)]
    lean_root = None
    if a.validate:
        lean_root = a.lean_root or find_lean_root(a.out) or ("/verif/lean" if os.path.isdir("/verif/lean") else None)
        if lean_root is None:
            sys.stderr.write("rs2lean: validation skipped (no lake project found)\n")
    rc = 0
    for fn in jobs:
        try:
            text, holes = validated(fn, a.src, a.out, lean_root)
        except Fatal as e:
            sys.stderr.write("rs2lean: FATAL %s: %s (file not written)\n" % (fn, e))
            rc = 2
            continue
        for src, name, why in holes:
            sys.stderr.write("rs2lean: UNTRANSLATABLE %s fn %s: %s\n" % (src, name, why))
        if holes and rc == 0:
            rc = 3
        if a.stdout:
            sys.stdout.write(text)
            continue
        os.makedirs(a.out, exist_ok=True)
        path = os.path.join(a.out, fn)
        old = open(path).read() if os.path.exists(path) else None
        if old != text:                # keep the mtime when nothing changed (lake rebuilds on hash anyway)
            with open(path + ".tmp", "w") as f:
                f.write(text)
            os.replace(path + ".tmp", path)
        sys.stderr.write("rs2lean: wrote %s (%d bytes, %d untranslatable)%s\n"
                         % (path, len(text), len(holes), "" if old != text else " [unchanged]"))
    return rc


if __name__ == "__main__":
    sys.exit(main())
