#!/usr/bin/env python3
"""
Mutation self-test of the rs2lean tie (does not touch /repo nor /verif/lean/SLV/Gen).

For every mutation: copy <src> to a scratch directory, apply ONE textual edit to bi.rs / mul.rs, run the
translator into the scratch directory, concatenate the generated file with the committed tie file
(SLV/Gen/BiTie.lean or MulTie.lean, its `import SLV.Gen.*` line dropped) into one scratch Lean file and run
`lake env lean` on it.  Reports which theorems stop checking.  The scratch directory is removed at the end.

  rs2lean_selftest.py [--src /repo/src] [--keep] [--match TEXT] [--file F]
     --match "cmp "  the mutations of the approximate comparisons of BOpinion;  --match "PartialEq: "  those of the derived /
     hand-written `==` (property C20);  --match control  the unmutated tree (both outputs)
"""
import os, re, shutil, subprocess, sys, tempfile, argparse

HERE = os.path.dirname(os.path.abspath(__file__))
LEAN = "/verif/lean"

# (id, file, old, new, expectation)   expectation: theorem that must break | None (all pass: rc 0, nothing broken) |
#   ("exact", translator exit code, {exactly these gen_* theorems break}) |
#   ("file", exit code, {these must break}, {these must not}) | ("fatal",)
#   file: the source file that is edited; it selects the output that is checked (Bi.lean + BiTie.lean for bi.rs,
#   convert.rs, approx_ext.rs, errors.rs; Mul.lean + MulTie.lean otherwise); "mul.rs@bi" edits mul.rs and checks Bi.lean
# the comment + statement that closes cfuse / afuse / wfuse since repair df72a91 (identical in the three functions)
RENORM = ("                // same renormalisation as the multinomial operators (`Simplex::normalized`): without it the deviation of\n"
          "                // b + d + u from 1 that the operands carry (up to a few ulps, accepted by the constructor) is propagated and,\n"
          "                // by cumulative fusion, amplified from call to call, and a fold of fusions eventually rejects its own result\n"
          "                let s = b + d + u;\n")
# the renormalisation of mul / comul / deduce (repair d46c983)
RENORM2 = ("                // renormalise like the fusion operators: the deviation of b + d + u from 1 carried by the operands plus the\n"
           "                // rounding of the independent formulas otherwise leaves the 4-ulp window of the self-check\n"
           "                let s = b + d + u;\n")
# compute_base_rate since repair c8a7116: the head of the guard ladder, the Avg arm up to its shortcut value, the Wgh formula arm
BR_HEAD = ("    if std::ptr::eq(lhs.base_rate, rhs.base_rate) {\n        lhs.base_rate.clone()\n"
           "    } else if lhs.is_dogmatic() && rhs.is_dogmatic() {")
BR_AVG = ("FuseOp::Avg => T::from_fn(|i| {\n                if lhs.base_rate[i] == rhs.base_rate[i] {\n"
          "                    lhs.base_rate[i]")
BR_WGH = ("if lhs.base_rate[i] == rhs.base_rate[i] {\n                        lhs.base_rate[i]\n"
          "                    } else {\n                        (lhs.base_rate[i] * lhs_sum_b + rhs.base_rate[i] * rhs_sum_b) / temp")
FUSE_DEPS = {"gen_compute_base_rate_eq", "gen_fuse_eq", "gen_fuse_ref_simplex_eq", "gen_fuse_opinion_simplex_eq",
             "gen_fuse_opinion_opinion_eq", "gen_fuse_assign_opinion_ref_eq", "gen_fuse_assign_opinion_opinion_eq",
             "gen_fuse_assign_opinion_simplex_eq"}
MUTATIONS = [
    ("control", "bi.rs", None, None, None),
    ("mul: base_rate -> b() in one factor", "bi.rs",
     "(1.0 - self.base_rate) * rhs.base_rate * self.b() * rhs.u()",
     "(1.0 - self.b()) * rhs.base_rate * self.b() * rhs.u()", "gen_mul_eq"),
    ("wfuse: swap two factors of a product", "bi.rs",
     "b = (self.b() * ca * rhs.u() + rhs.b() * cb * self.u()) / denom;",
     "b = (self.b() * rhs.u() * ca + rhs.b() * cb * self.u()) / denom;", "gen_wfuse_eq"),
    ("deduce: > -> >= in the case selector", "bi.rs",
     "match (cond[0].b() > cond[1].b(),", "match (cond[0].b() >= cond[1].b(),", "gen_deduce_eq"),
    # ---- deduce after repair b163717: `k = match (b0 > b1, d0 > d1) { .. => 0.0, (true, false) => { ka; kb; ka.min(kb) }, .. }`
    ("deduce: cond[1].b() -> cond[0].b() in ka (Case II)", "bi.rs",
     "let ka = self.base_rate * self.u() * (cond[0].b() - cond[1].b()) / ay;",
     "let ka = self.base_rate * self.u() * (cond[0].b() - cond[0].b()) / ay;", ("exact", 0, {"gen_deduce_eq"})),
    ("deduce: kb of Case III divided by ay instead of 1 - ay", "bi.rs",
     "let kb = self.base_rate * self.u() * (cond[0].d() - cond[1].d()) / (1.0 - ay);",
     "let kb = self.base_rate * self.u() * (cond[0].d() - cond[1].d()) / ay;", ("exact", 0, {"gen_deduce_eq"})),
    ("deduce: ka.min(kb) -> kb.min(ka) in Case II (differs on NaN / ties only: the tie must BREAK)", "bi.rs",
     "let kb = rvax * self.u() * (cond[1].d() - cond[0].d()) / (1.0 - ay);\n                        ka.min(kb)",
     "let kb = rvax * self.u() * (cond[1].d() - cond[0].d()) / (1.0 - ay);\n                        kb.min(ka)",
     ("exact", 0, {"gen_deduce_eq"})),
    ("deduce: ka.min(kb) -> ka.max(kb) in Case III", "bi.rs",
     "let kb = self.base_rate * self.u() * (cond[0].d() - cond[1].d()) / (1.0 - ay);\n                        ka.min(kb)",
     "let kb = self.base_rate * self.u() * (cond[0].d() - cond[1].d()) / (1.0 - ay);\n                        ka.max(kb)",
     ("exact", 0, {"gen_deduce_eq"})),
    ("deduce: the patterns of Case II and Case III exchanged", "bi.rs",
     "(true, false) => {\n                        let ka = self.base_rate",
     "(false, true) => {\n                        let ka = self.base_rate", "gen_deduce_eq"),
    ("deduce: Case I arm 0.0 -> 1.0", "bi.rs",
     "(true, true) | (false, false) => 0.0,", "(true, true) | (false, false) => 1.0,", ("exact", 0, {"gen_deduce_eq"})),
    ("deduce: the tie guard of repair 4d5bbb1 re-inserted (same value in exact arithmetic: the tie must BREAK)", "bi.rs",
     "(true, true) | (false, false) => 0.0,",
     "(true, true) | (false, false) => 0.0,\n                    _ if cond[0].b() == cond[1].b() || cond[0].d() == cond[1].d() => 0.0,",
     ("exact", 0, {"gen_deduce_eq"})),
    ("deduce: harmless extra parentheses around the receiver of .min (same tree: the tie must HOLD)", "bi.rs",
     "let kb = rvax * self.u() * (cond[1].d() - cond[0].d()) / (1.0 - ay);\n                        ka.min(kb)",
     "let kb = rvax * self.u() * (cond[1].d() - cond[0].d()) / (1.0 - ay);\n                        (ka).min(kb)", None),
    ("deduce: .min on a receiver that is not recognisably a float (outside the subset => hole)", "bi.rs",
     "let kb = rvax * self.u() * (cond[1].d() - cond[0].d()) / (1.0 - ay);\n                        ka.min(kb)",
     "let kb = rvax * self.u() * (cond[1].d() - cond[0].d()) / (1.0 - ay);\n                        if (ka > kb).min(true) { kb } else { ka }",
     ("exact", 3, {"gen_deduce_eq"})),
    ("deduce: guard on a pattern that is not a catch-all (outside the subset => hole)", "bi.rs",
     "(true, true) | (false, false) => 0.0,",
     "(true, true) | (false, false) => 0.0,\n                    (_, false) if cond[0].b() == cond[1].b() => 0.0,",
     ("exact", 3, {"gen_deduce_eq"})),
    ("deduce: guard on the last arm (outside the subset => hole)", "bi.rs",
     "(false, true) => {\n                        let ka = rvax", "(false, true) if ay > 0.0 => {\n                        let ka = rvax",
     ("exact", 3, {"gen_deduce_eq"})),
    # ---- renormalisation of the binomial fusions (repair df72a91)
    ("cfuse: renormalisation dropped (pre-repair text)", "bi.rs",
     "(rhs.u() * ca + self.u() * cb)\n                };\n" + RENORM + "                Self::try_new(b / s, d / s, u / s, a)",
     "(rhs.u() * ca + self.u() * cb)\n                };\n" + RENORM + "                Self::try_new(b, d, u, a)",
     ("exact", 0, {"gen_cfuse_eq"})),
    ("cfuse: s = b + d + u -> s = b + u + d", "bi.rs",
     "(rhs.u() * ca + self.u() * cb)\n                };\n" + RENORM,
     "(rhs.u() * ca + self.u() * cb)\n                };\n" + RENORM.replace("let s = b + d + u;", "let s = b + u + d;"),
     ("exact", 0, {"gen_cfuse_eq"})),
    ("afuse: u / s -> u in the renormalisation", "bi.rs",
     "a = (self.base_rate + rhs.base_rate) / 2.0;\n                }\n" + RENORM + "                Self::try_new(b / s, d / s, u / s, a)",
     "a = (self.base_rate + rhs.base_rate) / 2.0;\n                }\n" + RENORM + "                Self::try_new(b / s, d / s, u, a)",
     ("exact", 0, {"gen_afuse_eq"})),
    ("wfuse: b / s -> b * s in the renormalisation", "bi.rs",
     "a = (self.base_rate * ca + rhs.base_rate * cb) / (ca + cb);\n                }\n" + RENORM + "                Self::try_new(b / s, d / s, u / s, a)",
     "a = (self.base_rate * ca + rhs.base_rate * cb) / (ca + cb);\n                }\n" + RENORM + "                Self::try_new(b * s, d / s, u / s, a)",
     ("exact", 0, {"gen_wfuse_eq"})),
    # ---- renormalisation of mul / comul / deduce (repair d46c983)
    ("mul: renormalisation dropped (pre-repair text)", "bi.rs",
     "/ na;\n" + RENORM2 + "                Self::new(b / s, d / s, u / s, a)",
     "/ na;\n" + RENORM2 + "                Self::new(b, d, u, a)", ("exact", 0, {"gen_mul_eq"})),
    ("mul: s = b + d + u -> s = d + b + u", "bi.rs",
     "/ na;\n" + RENORM2, "/ na;\n" + RENORM2.replace("let s = b + d + u;", "let s = d + b + u;"),
     ("exact", 0, {"gen_mul_eq"})),
    ("comul: u / s -> u in the renormalisation", "bi.rs",
     "wx * rhs.d() * self.u());\n" + RENORM2 + "                Self::new(b / s, d / s, u / s, a)",
     "wx * rhs.d() * self.u());\n" + RENORM2 + "                Self::new(b / s, d / s, u, a)", ("exact", 0, {"gen_comul_eq"})),
    # ---- repair a66cfd4: comul forms the weights wx = ax / a, wy = ay / a before multiplying
    ("comul weights: wx <-> wy in the d sum", "bi.rs",
     "+ (wx * (1.0 - rhs.base_rate) * self.d() * rhs.u()\n                        + wy * (1.0 - self.base_rate) * rhs.d() * self.u());",
     "+ (wy * (1.0 - rhs.base_rate) * self.d() * rhs.u()\n                        + wx * (1.0 - self.base_rate) * rhs.d() * self.u());",
     ("exact", 0, {"gen_comul_eq"})),
    ("comul weights: wx <-> wy in the u sum", "bi.rs",
     "(wy * self.d() * rhs.u() + wx * rhs.d() * self.u());", "(wx * self.d() * rhs.u() + wy * rhs.d() * self.u());",
     ("exact", 0, {"gen_comul_eq"})),
    ("comul weights: the two definitions exchanged (wx = ay / a, wy = ax / a)", "bi.rs",
     "let wx = self.base_rate / a;\n                let wy = rhs.base_rate / a;",
     "let wx = rhs.base_rate / a;\n                let wy = self.base_rate / a;", ("exact", 0, {"gen_comul_eq"})),
    ("comul weights: division of wx dropped", "bi.rs",
     "let wx = self.base_rate / a;", "let wx = self.base_rate;", ("exact", 0, {"gen_comul_eq"})),
    ("comul weights: wy divided by the wrong quantity (b instead of a)", "bi.rs",
     "let wy = rhs.base_rate / a;", "let wy = rhs.base_rate / b;", ("exact", 0, {"gen_comul_eq"})),
    ("comul: the pre-repair text (numerators first, then / a; equal over the rationals: the tie must BREAK)", "bi.rs",
     "+ (wx * (1.0 - rhs.base_rate) * self.d() * rhs.u()\n                        + wy * (1.0 - self.base_rate) * rhs.d() * self.u());\n"
     "                let u = self.u() * rhs.u() + (wy * self.d() * rhs.u() + wx * rhs.d() * self.u());",
     "+ (self.base_rate * (1.0 - rhs.base_rate) * self.d() * rhs.u()\n                        + rhs.base_rate * (1.0 - self.base_rate) * rhs.d() * self.u())\n                        / a;\n"
     "                let u = self.u() * rhs.u()\n                    + (rhs.base_rate * self.d() * rhs.u() + self.base_rate * rhs.d() * self.u())\n                        / a;",
     ("exact", 0, {"gen_comul_eq"})),
    ("comul weights: the weight applied last instead of first (re-association: the tie must BREAK)", "bi.rs",
     "(wy * self.d() * rhs.u() + wx * rhs.d() * self.u());", "(self.d() * rhs.u() * wy + wx * rhs.d() * self.u());",
     ("exact", 0, {"gen_comul_eq"})),
    # ---- repair cf81fd9: deduce clamps b and d at zero before the renormalisation
    ("deduce clamp: b clamp removed", "bi.rs",
     "                let b = if b < 0.0 { 0.0 } else { b };\n", "", ("exact", 0, {"gen_deduce_eq"})),
    ("deduce clamp: d clamp removed", "bi.rs",
     "                let d = if d < 0.0 { 0.0 } else { d };\n", "", ("exact", 0, {"gen_deduce_eq"})),
    ("deduce clamp: b `<` -> `>`", "bi.rs",
     "let b = if b < 0.0 { 0.0 } else { b };", "let b = if b > 0.0 { 0.0 } else { b };", ("exact", 0, {"gen_deduce_eq"})),
    ("deduce clamp: d `<` -> `<=` (same values, but -0.0 / NaN handling is text: the tie must BREAK)", "bi.rs",
     "let d = if d < 0.0 { 0.0 } else { d };", "let d = if d <= 0.0 { 0.0 } else { d };", ("exact", 0, {"gen_deduce_eq"})),
    ("deduce clamp: the b clamp tests d (clamps the wrong variable)", "bi.rs",
     "let b = if b < 0.0 { 0.0 } else { b };", "let b = if d < 0.0 { 0.0 } else { b };", ("exact", 0, {"gen_deduce_eq"})),
    ("deduce clamp: the d clamp returns b", "bi.rs",
     "let d = if d < 0.0 { 0.0 } else { d };", "let d = if d < 0.0 { 0.0 } else { b };", ("exact", 0, {"gen_deduce_eq"})),
    ("deduce clamp: b clamped to one instead of zero", "bi.rs",
     "let b = if b < 0.0 { 0.0 } else { b };", "let b = if b < 0.0 { 1.0 } else { b };", ("exact", 0, {"gen_deduce_eq"})),
    ("deduce clamp: arms exchanged (negated test)", "bi.rs",
     "let d = if d < 0.0 { 0.0 } else { d };", "let d = if d < 0.0 { d } else { 0.0 };", ("exact", 0, {"gen_deduce_eq"})),
    ("deduce clamp: u clamped as well (not in the code)", "bi.rs",
     "let u = ui + k;\n                let a = ay;", "let u = ui + k;\n                let u = if u < 0.0 { 0.0 } else { u };\n                let a = ay;",
     ("exact", 0, {"gen_deduce_eq"})),
    ("deduce clamp: clamps moved after u (binding order only: the tie must HOLD)", "bi.rs",
     "                let b = if b < 0.0 { 0.0 } else { b };\n                let d = if d < 0.0 { 0.0 } else { d };\n                let u = ui + k;\n",
     "                let u = ui + k;\n                let b = if b < 0.0 { 0.0 } else { b };\n                let d = if d < 0.0 { 0.0 } else { d };\n",
     None),
    ("deduce clamp: f64::max with a literal instead of the comparison (NaN handling differs; outside the subset => hole)", "bi.rs",
     "let b = if b < 0.0 { 0.0 } else { b };", "let b = b.max(0.0);", ("exact", 3, {"gen_deduce_eq"})),
    ("deduce: d / s -> d * s in the renormalisation", "bi.rs",
     "let a = ay;\n" + RENORM2 + "                Self::new(b / s, d / s, u / s, a)",
     "let a = ay;\n" + RENORM2 + "                Self::new(b / s, d * s, u / s, a)", ("exact", 0, {"gen_deduce_eq"})),
    ("deduce: renormalisation dropped (pre-repair text)", "bi.rs",
     "let a = ay;\n" + RENORM2 + "                Self::new(b / s, d / s, u / s, a)",
     "let a = ay;\n" + RENORM2 + "                Self::new(b, d, u, a)", ("exact", 0, {"gen_deduce_eq"})),
    ("comul: harmless commutation d*d' -> d'*d", "bi.rs",
     "let d = self.d() * rhs.d()", "let d = rhs.d() * self.d()", "gen_comul_eq"),
    ("cfuse: && -> || in the vacuous test", "bi.rs",
     "let a = if ulps_eq!(*self.u(), 1.0) && ulps_eq!(*rhs.u(), 1.0)",
     "let a = if ulps_eq!(*self.u(), 1.0) || ulps_eq!(*rhs.u(), 1.0)", "gen_cfuse_eq"),
    ("cfuse: 2.0 -> 1.0", "bi.rs",
     "let a = if ulps_eq!(*self.u(), 1.0) && ulps_eq!(*rhs.u(), 1.0) {\n                    (self.base_rate + rhs.base_rate) / 2.0",
     "let a = if ulps_eq!(*self.u(), 1.0) && ulps_eq!(*rhs.u(), 1.0) {\n                    (self.base_rate + rhs.base_rate) / 1.0",
     "gen_cfuse_eq"),
    ("afuse: u = 0.0 -> u = 1.0 in the dogmatic branch", "bi.rs", "u = 0.0;", "u = 1.0;", "gen_afuse_eq"),
    ("trans_opp: error label u -> d", "bi.rs",
     'check_unit_interval(u, "u").unwrap();', 'check_unit_interval(u, "d").unwrap();', "gen_trans_opp_eq"),
    ("trans_bsr: drop a parenthesis level (reassociation)", "bi.rs",
     "1.0 - ev * (self.b() + self.d())", "1.0 - ev * self.b() + self.d()", "gen_trans_bsr_eq"),
    ("trans_unc: harmless extra parentheses (same tree: tie must HOLD)", "bi.rs",
     "1.0 - b + b * self.u()", "(1.0 - b) + (b * self.u())", None),
    ("check_simplex: swap the order of two checks", "bi.rs",
     'check_unit_interval(b, "b")?;\n    check_unit_interval(d, "d")?;',
     'check_unit_interval(d, "d")?;\n    check_unit_interval(b, "b")?;', "gen_check_simplex_eq"),
    ("try_new: check the simplex before the base rate", "bi.rs",
     "check_base_rate(a)?;\n                Ok(Self {\n                    simplex: BSimplex::<$ft>::try_new(b, d, u)?,\n                    base_rate: a,\n                })",
     "let s = BSimplex::<$ft>::try_new(b, d, u)?;\n                check_base_rate(a)?;\n                Ok(Self {\n                    simplex: s,\n                    base_rate: a,\n                })",
     "gen_try_new_eq"),
    ("projection: a*u -> u*a", "bi.rs", "self.b() + self.a() * self.u()", "self.b() + self.u() * self.a()",
     "gen_projection_eq"),
    ("mul: syntax outside the subset (.sqrt())", "bi.rs",
     "let a = self.base_rate * rhs.base_rate;", "let a = (self.base_rate * rhs.base_rate).sqrt();",
     ("exact", 3, {"gen_mul_eq"})),
    ("comul: syntax outside the subset (while loop)", "bi.rs",
     "let b = self.b() + rhs.b() - self.b() * rhs.b();",
     "let mut b = self.b() + rhs.b() - self.b() * rhs.b(); while b > 1.0 { b = b - 1.0; }",
     ("exact", 3, {"gen_comul_eq"})),
    ("RESILIENCE projection untranslatable: its tie fails, nothing else (deduce no longer calls it since b163717)", "bi.rs",
     "self.b() + self.a() * self.u()", "(self.b() + self.a() * self.u()).abs()",
     ("exact", 3, {"gen_projection_eq"})),
    ("RESILIENCE check_simplex untranslatable: try_new chain fails, the operators still check", "bi.rs",
     'check_is_one(b + d + u, "b + d + u")?;', 'check_is_one((b + d + u).abs(), "b + d + u")?;',
     ("exact", 3, {"gen_check_simplex_eq", "gen_BSimplex_try_new_eq", "gen_try_new_eq", "gen_new_eq"})),
    ("guard: BSimplex::d reads belief[0] (every bi.rs / convert.rs function a hole; approx_ext / errors untouched)",
     "bi.rs", "&self.0.belief[1]", "&self.0.belief[0]",
     ("file", 3, {"gen_mul_eq", "gen_projection_eq", "gen_deduce_eq", "gen_check_simplex_eq", "gen_trans_bsr_eq",
                  "gen_BOpinion_into_Opinion1d_eq"},
      {"gen_is_in_range_eq", "gen_in_unit_interval_eq", "gen_check_unit_interval_eq", "gen_check_is_one_eq"})),
    ("guard: BOpinion::new_unchecked swaps b and d", "bi.rs",
     "simplex: BSimplex::new_unchecked(b, d, u),", "simplex: BSimplex::new_unchecked(d, b, u),",
     ("file", 3, {"gen_mul_eq", "gen_wfuse_eq"}, {"gen_is_one_eq"})),
    ("approx_ext: >= -> > in is_in_range", "approx_ext.rs", "(v >= from && v <= to)", "(v > from && v <= to)",
     ("exact", 0, {"gen_is_in_range_eq", "gen_in_unit_interval_eq", "gen_check_unit_interval_eq"})),
    ("approx_ext: in_unit_interval tests [0, 0]", "approx_ext.rs", "is_in_range(v, V::zero(), V::one())",
     "is_in_range(v, V::zero(), V::zero())", ("exact", 0, {"gen_in_unit_interval_eq", "gen_check_unit_interval_eq"})),
    ("approx_ext: is_zero compares with one", "approx_ext.rs",
     "pub fn is_zero<V: Float + UlpsEq>(v: V) -> bool {\n    ulps_eq!(v, V::zero())",
     "pub fn is_zero<V: Float + UlpsEq>(v: V) -> bool {\n    ulps_eq!(v, V::one())", ("exact", 0, {"gen_is_zero_eq"})),
    ("errors: check_unit_interval negated", "errors.rs", "if approx_ext::in_unit_interval(v) {",
     "if !approx_ext::in_unit_interval(v) {", ("exact", 0, {"gen_check_unit_interval_eq"})),
    ("errors: check_is_one uses in_unit_interval", "errors.rs", "if approx_ext::is_one(v) {",
     "if approx_ext::in_unit_interval(v) {", ("exact", 0, {"gen_check_is_one_eq"})),
    ("convert: second base-rate entry loses `1.0 -`", "convert.rs", "[value.base_rate, 1.0 - value.base_rate]",
     "[value.base_rate, value.base_rate]", ("exact", 0, {"gen_BOpinion_into_Opinion1d_eq"})),
    ("convert: b()[1] -> b()[0] (owned variant)", "convert.rs",
     "value.b()[0],\n                    value.b()[1],", "value.b()[0],\n                    value.b()[0],",
     ("exact", 0, {"gen_Opinion1d_into_BOpinion_eq"})),
    # ---- comparisons (property C20): impl AbsDiffEq / RelativeEq / UlpsEq for BOpinion<$ft>, derived / hand-written `==`
    ("cmp relative_eq: epsilon and max_relative swapped in the u component", "bi.rs",
     "self.u().relative_eq(other.u(), epsilon, max_relative)", "self.u().relative_eq(other.u(), max_relative, epsilon)",
     ("exact", 0, {"gen_BOpinion_relative_eq_eq"})),
    ("cmp abs_diff_eq: the d conjunct dropped (three components compared)", "bi.rs",
     "self.b().abs_diff_eq(other.b(), epsilon)\n                    && self.d().abs_diff_eq(other.d(), epsilon)",
     "self.b().abs_diff_eq(other.b(), epsilon)", ("exact", 0, {"gen_BOpinion_abs_diff_eq_eq"})),
    ("cmp abs_diff_eq: && -> || before the a conjunct", "bi.rs",
     "&& self.a().abs_diff_eq(other.a(), epsilon)", "|| self.a().abs_diff_eq(other.a(), epsilon)",
     ("exact", 0, {"gen_BOpinion_abs_diff_eq_eq"})),
    ("cmp relative_eq: && -> || after the b conjunct", "bi.rs",
     "&& self.d().relative_eq(other.d(), epsilon, max_relative)", "|| self.d().relative_eq(other.d(), epsilon, max_relative)",
     ("exact", 0, {"gen_BOpinion_relative_eq_eq"})),
    ("cmp ulps_eq: the b test hoisted into an early return (outside the subset => hole)", "bi.rs",
     "self.b().ulps_eq(other.b(), epsilon, max_ulps)\n                    && self.d().ulps_eq(other.d(), epsilon, max_ulps)",
     "if !self.b().ulps_eq(other.b(), epsilon, max_ulps) {\n                    return false;\n                }\n"
     "                self.d().ulps_eq(other.d(), epsilon, max_ulps)", ("exact", 3, {"gen_BOpinion_ulps_eq_eq"})),
    ("cmp ulps_eq: the u test hoisted in front of the conjunction (order of the conjuncts)", "bi.rs",
     "self.b().ulps_eq(other.b(), epsilon, max_ulps)\n                    && self.d().ulps_eq(other.d(), epsilon, max_ulps)\n"
     "                    && self.u().ulps_eq(other.u(), epsilon, max_ulps)",
     "self.u().ulps_eq(other.u(), epsilon, max_ulps)\n                    && self.b().ulps_eq(other.b(), epsilon, max_ulps)\n"
     "                    && self.d().ulps_eq(other.d(), epsilon, max_ulps)", ("exact", 0, {"gen_BOpinion_ulps_eq_eq"})),
    ("cmp ulps_eq: the b test hoisted into a `let` (same function: the tie must HOLD)", "bi.rs",
     "self.b().ulps_eq(other.b(), epsilon, max_ulps)\n                    && self.d().ulps_eq(other.d(), epsilon, max_ulps)",
     "let t = self.b().ulps_eq(other.b(), epsilon, max_ulps);\n"
     "                t && self.d().ulps_eq(other.d(), epsilon, max_ulps)", None),
    ("cmp ulps_eq: a compared with d", "bi.rs", "self.a().ulps_eq(other.a(), epsilon, max_ulps)",
     "self.a().ulps_eq(other.d(), epsilon, max_ulps)", ("exact", 0, {"gen_BOpinion_ulps_eq_eq"})),
    ("cmp abs_diff_eq: f64::from differences instead of delegating (outside the subset => hole)", "bi.rs",
     "self.b().abs_diff_eq(other.b(), epsilon)\n",
     "(f64::from(*self.b()) - f64::from(*other.b())).abs() <= f64::from(epsilon)\n",
     ("exact", 3, {"gen_BOpinion_abs_diff_eq_eq"})),
    ("cmp relative_eq: delegates to abs_diff_eq in the a component", "bi.rs",
     "&& self.a().relative_eq(other.a(), epsilon, max_relative)", "&& self.a().abs_diff_eq(other.a(), epsilon)",
     ("exact", 0, {"gen_BOpinion_relative_eq_eq"})),
    ("cmp abs_diff_eq: comparison on the whole opinion (not a scalar receiver => hole)", "bi.rs",
     "&& self.a().abs_diff_eq(other.a(), epsilon)", "&& self.abs_diff_eq(other, epsilon)",
     ("exact", 3, {"gen_BOpinion_abs_diff_eq_eq"})),
    ("cmp guard: default_epsilon no longer the scalar type's (all three comparisons become holes)", "bi.rs",
     "<$ft as AbsDiffEq>::default_epsilon()", "<$ft as AbsDiffEq>::default_epsilon() * 2.0",
     ("exact", 3, {"gen_BOpinion_abs_diff_eq_eq", "gen_BOpinion_relative_eq_eq", "gen_BOpinion_ulps_eq_eq"})),
    ("cmp guard: type Epsilon = f64", "bi.rs", "type Epsilon = <$ft as AbsDiffEq>::Epsilon;", "type Epsilon = f64;",
     ("exact", 3, {"gen_BOpinion_abs_diff_eq_eq", "gen_BOpinion_relative_eq_eq", "gen_BOpinion_ulps_eq_eq"})),
    ("cmp guard: default_max_relative returns default_epsilon", "bi.rs", "<$ft as RelativeEq>::default_max_relative()",
     "<$ft as AbsDiffEq>::default_epsilon()", ("exact", 3, {"gen_BOpinion_relative_eq_eq"})),
    ("cmp guard: default_max_ulps a constant", "bi.rs", "<$ft as UlpsEq>::default_max_ulps()", "16",
     ("exact", 3, {"gen_BOpinion_ulps_eq_eq"})),
    ("PartialEq: PartialEq removed from the derive of BOpinion", "bi.rs",
     "#[derive(Debug, PartialEq)]\npub struct BOpinion<T>", "#[derive(Debug)]\npub struct BOpinion<T>",
     ("exact", 3, {"gen_eq_BOpinion_eq"})),
    ("PartialEq: PartialEq removed from the derive of BSimplex (BOpinion's == delegates to it)", "bi.rs",
     "#[derive(Debug, PartialEq)]\npub struct BSimplex<T>", "#[derive(Debug)]\npub struct BSimplex<T>",
     ("exact", 3, {"gen_eq_BSimplex_eq", "gen_eq_BOpinion_eq"})),
    ("PartialEq: derive of BOpinion replaced by a hand-written impl that compares the base rate only", "bi.rs",
     "#[derive(Debug, PartialEq)]\npub struct BOpinion<T> {\n    pub simplex: BSimplex<T>,\n    pub base_rate: T,\n}",
     "#[derive(Debug)]\npub struct BOpinion<T> {\n    pub simplex: BSimplex<T>,\n    pub base_rate: T,\n}\n"
     "impl<T: PartialEq> PartialEq for BOpinion<T> {\n    fn eq(&self, other: &Self) -> bool {\n"
     "        self.base_rate == other.base_rate\n    }\n}", ("exact", 3, {"gen_eq_BOpinion_eq"})),
    ("PartialEq: hand-written PartialEq impl next to the derive of BOpinion", "bi.rs",
     "impl_bop!(f32);", "impl PartialEq<f32> for BOpinion<f32> {\n    fn eq(&self, o: &f32) -> bool {\n"
     "        self.base_rate == *o\n    }\n}\nimpl_bop!(f32);", ("exact", 3, {"gen_eq_BOpinion_eq"})),
    ("PartialEq: a field added to BOpinion (no convention for its ==)", "bi.rs",
     "    pub simplex: BSimplex<T>,\n    pub base_rate: T,\n}", "    pub simplex: BSimplex<T>,\n    pub base_rate: T,\n    pub tag: u8,\n}",
     ("exact", 3, {"gen_eq_BOpinion_eq"})),
    ("PartialEq: derive of BOpinion behind cfg_attr", "bi.rs",
     "#[derive(Debug, PartialEq)]\npub struct BOpinion<T>", "#[derive(Debug)]\n#[cfg_attr(test, derive(PartialEq))]\npub struct BOpinion<T>",
     ("exact", 3, {"gen_eq_BOpinion_eq"})),
    ("PartialEq: PartialEq removed from the derive of Simplex (mul.rs), seen from Bi.lean: BSimplex wraps a Simplex1d",
     "mul.rs@bi", "#[derive(Default, Clone, PartialEq)]\npub struct Simplex<T, V>", "#[derive(Default, Clone)]\npub struct Simplex<T, V>",
     ("exact", 3, {"gen_eq_BSimplex_eq", "gen_eq_BOpinion_eq"})),
    # ---- mul.rs
    ("control: Mul.lean / MulTie.lean on the unmutated tree", "mul.rs", None, None, None),
    ("PartialEq: PartialEq removed from the derive of Simplex (OpinionBase's == delegates to it)", "mul.rs",
     "#[derive(Default, Clone, PartialEq)]\npub struct Simplex<T, V>", "#[derive(Default, Clone)]\npub struct Simplex<T, V>",
     ("exact", 3, {"gen_eq_Simplex_eq", "gen_eq_OpinionBase_eq"})),
    ("PartialEq: PartialEq removed from the derive of OpinionBase", "mul.rs",
     "#[derive(Default, Clone, PartialEq)]\npub struct OpinionBase<S, T>", "#[derive(Default, Clone)]\npub struct OpinionBase<S, T>",
     ("exact", 3, {"gen_eq_OpinionBase_eq"})),
    ("PartialEq: fields of Simplex reordered (the derived == compares in declaration order)", "mul.rs",
     "pub struct Simplex<T, V> {\n    pub belief: T,\n    pub uncertainty: V,\n}",
     "pub struct Simplex<T, V> {\n    pub uncertainty: V,\n    pub belief: T,\n}",
     ("exact", 0, {"gen_eq_Simplex_eq", "gen_eq_OpinionBase_eq"})),
    ("PartialEq: PartialEq removed from the derive of MArr2 (MArr3 nests it)", "multi_array/non_labeled.rs",
     "#[derive(Clone, Debug, PartialEq)]\npub struct MArr2<", "#[derive(Clone, Debug)]\npub struct MArr2<",
     ("exact", 3, {"gen_eq_MArr2_eq", "gen_eq_MArr3_eq"})),
    ("PartialEq: PartialEq removed from the derive of MArr1 (MArr2 / MArr3 nest it)", "multi_array/non_labeled.rs",
     "#[derive(Clone, Debug, PartialEq)]\npub struct MArr1<", "#[derive(Clone, Debug)]\npub struct MArr1<",
     ("exact", 3, {"gen_eq_MArr1_eq", "gen_eq_MArr2_eq", "gen_eq_MArr3_eq"})),
    ("PartialEq: MArrD1::eq compares a prefix (MArrD2 / MArrD3 nest it)", "multi_array/labeled.rs",
     "self.inner == other.inner", "self.inner[..1] == other.inner[..1]",
     ("exact", 3, {"gen_eq_MArrD1_eq", "gen_eq_MArrD2_eq", "gen_eq_MArrD3_eq"})),
    ("PartialEq: MArrD2::eq compares the first row only (MArrD3 nests it)", "multi_array/labeled.rs",
     "    D0: Domain,\n    D1: Domain,\n    V: cmp::PartialEq,\n{\n    fn eq(&self, other: &Self) -> bool {\n        self.inner == other.inner",
     "    D0: Domain,\n    D1: Domain,\n    V: cmp::PartialEq,\n{\n    fn eq(&self, other: &Self) -> bool {\n"
     "        self.inner.iter().take(1).eq(other.inner.iter().take(1))", ("exact", 3, {"gen_eq_MArrD2_eq", "gen_eq_MArrD3_eq"})),
    ("PartialEq: MArrD3::eq compares self with self", "multi_array/labeled.rs",
     "    D2: Domain,\n    V: cmp::PartialEq,\n{\n    fn eq(&self, other: &Self) -> bool {\n        self.inner == other.inner",
     "    D2: Domain,\n    V: cmp::PartialEq,\n{\n    fn eq(&self, other: &Self) -> bool {\n        self.inner == self.inner",
     ("exact", 3, {"gen_eq_MArrD3_eq"})),
    ("PartialEq: MArrD3's impl overrides ne", "multi_array/labeled.rs",
     "    D2: Domain,\n    V: cmp::PartialEq,\n{\n    fn eq(&self, other: &Self) -> bool {\n        self.inner == other.inner\n    }",
     "    D2: Domain,\n    V: cmp::PartialEq,\n{\n    fn eq(&self, other: &Self) -> bool {\n        self.inner == other.inner\n    }\n"
     "    fn ne(&self, _other: &Self) -> bool {\n        false\n    }", ("exact", 3, {"gen_eq_MArrD3_eq"})),
    ("guard: Simplex::u returns something else", "mul.rs",
     "pub fn u(&self) -> &V {\n        &self.uncertainty", "pub fn u(&self) -> &V {\n        &self.belief_sum",
     ("file", 3, {"gen_inverse_eq", "gen_fuse_eq", "gen_product2_eq", "gen_product2_labeled_eq", "gen_Simplex_vacuous_eq"},
      set())),
    ("FATAL mul.rs missing", "mul.rs", "DELETE", None, ("fatal",)),
    ("multi check_simplex: check u after the sum", "mul.rs",
     'check_unit_interval(u, "u")?;\n    check_is_one(sum_b + u, "sum(b) + u")?;',
     'check_is_one(sum_b + u, "sum(b) + u")?;\n    check_unit_interval(u, "u")?;', "gen_multi_check_simplex_eq"),
    ("multi check_simplex: accumulate before checking the entry (same function: the tie must HOLD)", "mul.rs",
     'check_unit_interval(bi, format!("b[{i:?}]"))?;\n        sum_b += bi;',
     'sum_b += bi;\n        check_unit_interval(bi, format!("b[{i:?}]"))?;', None),
    ("multi check_base_rate: label a[] -> b[]", "mul.rs", 'check_unit_interval(ai, format!("a[{i:?}]"))?;',
     'check_unit_interval(ai, format!("b[{i:?}]"))?;', "gen_multi_check_base_rate_eq"),
    ("Opinion::try_new: base rate checked first", "mul.rs",
     "check_simplex(&b, u)?;\n        check_base_rate(&a)?;", "check_base_rate(&a)?;\n        check_simplex(&b, u)?;",
     "gen_Opinion_try_new_eq"),
    ("Fuse<&Simplex,&Simplex>: the panic moves to Avg", "mul.rs",
     "if matches!(self, FuseOp::ECm) {\n            panic!", "if matches!(self, FuseOp::Avg) {\n            panic!",
     "gen_fuse_simplex_simplex_eq"),
    ("Fuse<OpinionRef,&Simplex>: rhs borrows its own clone of the base rate (identity unknown => hole)", "mul.rs",
     "self.fuse(lhs.clone(), OpinionRef::from((rhs, lhs.base_rate)))",
     "self.fuse(lhs.clone(), OpinionRef::from((rhs, &lhs.base_rate.clone())))", "gen_fuse_ref_simplex_eq"),
    ("deduce_with: fallback ignored (unwrap_or_else -> unwrap)", "mul.rs",
     "mbr::<X, Y, T, Cond, U, V>(&self.base_rate, conds).unwrap_or_else(f);",
     "mbr::<X, Y, T, Cond, U, V>(&self.base_rate, conds).unwrap();", "gen_OpinionRef_deduce_with_eq"),
    ("abduce_with: inverse called with ay in place of ax (kind error => hole)", "mul.rs",
     "InverseCondition::inverse(conds, &ax, ay)", "InverseCondition::inverse(conds, ay, ay)", "gen_abduce_with_eq"),
    ("Discount for OpinionRef: t squared", "mul.rs", "(self.simplex.discount(t), (*self.base_rate).clone()).into()",
     "(self.simplex.discount(t * t), (*self.base_rate).clone()).into()", "gen_OpinionRef_discount_eq"),
    ("product2 (unlabelled): - -> + in b", "mul/non_labeled.rs", "let b = p[d] - a[d] * u;",
     "let b = p[d] + a[d] * u;", "gen_product2_eq"),
    # repair b817f74: clamp of the rounding residue of every joint belief mass in the four product bodies
    ("product clamp (unlabelled product2): removed", "mul/non_labeled.rs",
     "let b = MArr2::from_fn(|d| {\n            let b = p[d] - a[d] * u;\n            if b < V::zero() {\n                V::zero()\n"
     "            } else {\n                b\n            }\n        });",
     "let b = MArr2::from_fn(|d| p[d] - a[d] * u);", ("exact", 0, {"gen_product2_eq"})),
    ("product clamp (unlabelled product2): `<` -> `>`", "mul/non_labeled.rs",
     "a[d] * u;\n            if b < V::zero() {", "a[d] * u;\n            if b > V::zero() {",
     ("exact", 0, {"gen_product2_eq"})),
    ("product clamp (unlabelled product2): `<` -> `<=`", "mul/non_labeled.rs",
     "a[d] * u;\n            if b < V::zero() {", "a[d] * u;\n            if b <= V::zero() {",
     ("exact", 0, {"gen_product2_eq"})),
    ("product clamp (unlabelled product2): clamped to one instead of zero", "mul/non_labeled.rs",
     "a[d] * u;\n            if b < V::zero() {\n                V::zero()", "a[d] * u;\n            if b < V::zero() {\n                V::one()",
     ("exact", 0, {"gen_product2_eq"})),
    ("product clamp (unlabelled product2): branches swapped", "mul/non_labeled.rs",
     "a[d] * u;\n            if b < V::zero() {\n                V::zero()\n            } else {\n                b\n",
     "a[d] * u;\n            if b < V::zero() {\n                b\n            } else {\n                V::zero()\n",
     ("exact", 0, {"gen_product2_eq"})),
    ("product clamp (unlabelled product2): compares u instead of b", "mul/non_labeled.rs",
     "a[d] * u;\n            if b < V::zero() {", "a[d] * u;\n            if u < V::zero() {",
     ("exact", 0, {"gen_product2_eq"})),
    ("product clamp (unlabelled product2): clamps u instead of the masses", "mul/non_labeled.rs",
     "let b = MArr2::from_fn(|d| {\n            let b = p[d] - a[d] * u;\n            if b < V::zero() {\n                V::zero()\n"
     "            } else {\n                b\n            }\n        });\n        Opinion::new(b, u, a)",
     "let b = MArr2::from_fn(|d| p[d] - a[d] * u);\n        Opinion::new(b, if u < V::zero() { V::zero() } else { u }, a)",
     ("exact", 0, {"gen_product2_eq"})),
    ("product clamp (unlabelled product3): removed (product2 untouched)", "mul/non_labeled.rs",
     "let b = MArr3::from_fn(|d| {\n            let b = p[d] - a[d] * u;\n            if b < V::zero() {\n                V::zero()\n"
     "            } else {\n                b\n            }\n        });",
     "let b = MArr3::from_fn(|d| p[d] - a[d] * u);", ("exact", 0, {"gen_product3_eq"})),
    ("product clamp (labelled product2): removed", "mul/labeled.rs",
     "let b = MArrD2::<D0, D1, V>::from_iter(p_iter.zip(&a).map(|(p, &a)| {\n            let b = p - a * u;\n"
     "            if b < V::zero() {\n                V::zero()\n            } else {\n                b\n            }\n        }));",
     "let b = MArrD2::<D0, D1, V>::from_iter(p_iter.zip(&a).map(|(p, &a)| p - a * u));",
     ("exact", 0, {"gen_product2_labeled_eq"})),
    ("product clamp (labelled product2): `<` -> `>`", "mul/labeled.rs",
     "let b = p - a * u;\n            if b < V::zero() {", "let b = p - a * u;\n            if b > V::zero() {",
     ("exact", 0, {"gen_product2_labeled_eq"})),
    ("product clamp (labelled product2): `<` -> `<=`", "mul/labeled.rs",
     "let b = p - a * u;\n            if b < V::zero() {", "let b = p - a * u;\n            if b <= V::zero() {",
     ("exact", 0, {"gen_product2_labeled_eq"})),
    ("product clamp (labelled product2): clamped to one instead of zero", "mul/labeled.rs",
     "let b = p - a * u;\n            if b < V::zero() {\n                V::zero()",
     "let b = p - a * u;\n            if b < V::zero() {\n                V::one()",
     ("exact", 0, {"gen_product2_labeled_eq"})),
    ("product clamp (labelled product2): branches swapped", "mul/labeled.rs",
     "let b = p - a * u;\n            if b < V::zero() {\n                V::zero()\n            } else {\n                b\n",
     "let b = p - a * u;\n            if b < V::zero() {\n                b\n            } else {\n                V::zero()\n",
     ("exact", 0, {"gen_product2_labeled_eq"})),
    ("product clamp (labelled product2): compares u instead of b", "mul/labeled.rs",
     "let b = p - a * u;\n            if b < V::zero() {", "let b = p - a * u;\n            if u < V::zero() {",
     ("exact", 0, {"gen_product2_labeled_eq"})),
    ("product clamp (labelled product2): compares the base-rate cell instead of b", "mul/labeled.rs",
     "let b = p - a * u;\n            if b < V::zero() {", "let b = p - a * u;\n            if a < V::zero() {",
     ("exact", 0, {"gen_product2_labeled_eq"})),
    ("product clamp (labelled product2): clamps u instead of the masses", "mul/labeled.rs",
     "let b = MArrD2::<D0, D1, V>::from_iter(p_iter.zip(&a).map(|(p, &a)| {\n            let b = p - a * u;\n"
     "            if b < V::zero() {\n                V::zero()\n            } else {\n                b\n            }\n        }));\n"
     "        Opinion::normalized(b, u, a)",
     "let b = MArrD2::<D0, D1, V>::from_iter(p_iter.zip(&a).map(|(p, &a)| p - a * u));\n"
     "        Opinion::normalized(b, if u < V::zero() { V::zero() } else { u }, a)",
     ("exact", 0, {"gen_product2_labeled_eq"})),
    ("product clamp (labelled product3): removed (product2 untouched)", "mul/labeled.rs",
     "let b = MArrD3::<D0, D1, D2, _>::from_iter(p_iter.zip(&a).map(|(p, &a)| {\n            let b = p - a * u;\n"
     "            if b < V::zero() {\n                V::zero()\n            } else {\n                b\n            }\n        }));",
     "let b = MArrD3::<D0, D1, D2, _>::from_iter(p_iter.zip(&a).map(|(p, &a)| p - a * u));",
     ("exact", 0, {"gen_product3_labeled_eq"})),
    ("product clamp (labelled product2): written `(p - a * u).max(V::zero())` (0 instead of NaN on a NaN mass: the tie must BREAK)", "mul/labeled.rs",
     "let b = MArrD2::<D0, D1, V>::from_iter(p_iter.zip(&a).map(|(p, &a)| {\n            let b = p - a * u;\n"
     "            if b < V::zero() {\n                V::zero()\n            } else {\n                b\n            }\n        }));",
     "let b = MArrD2::<D0, D1, V>::from_iter(p_iter.zip(&a).map(|(p, &a)| (p - a * u).max(V::zero())));",
     ("exact", 0, {"gen_product2_labeled_eq"})),
    ("product clamp (labelled product2): shape outside the subset (`match b < V::zero()`) => hole", "mul/labeled.rs",
     "let b = p - a * u;\n            if b < V::zero() {\n                V::zero()\n            } else {\n                b\n            }\n",
     "let b = p - a * u;\n            match b < V::zero() {\n                true => V::zero(),\n                false => b,\n            }\n",
     ("exact", 3, {"gen_product2_labeled_eq", "gen_merge_cond2_labeled_eq"})),
    ("product2 (unlabelled): base rate uses d[0] twice (kind error => hole)", "mul/non_labeled.rs",
     "MArr2::from_fn(|d| w0.base_rate[d[0]] * w1.base_rate[d[1]])", "MArr2::from_fn(|d| w0.base_rate[d[0]] * w1.base_rate[d[0]])",
     "gen_product2_eq"),
    ("product3 (unlabelled): factors commuted in a", "mul/non_labeled.rs",
     "w0.base_rate[d[0]] * w1.base_rate[d[1]] * w2.base_rate[d[2]]", "w1.base_rate[d[1]] * w0.base_rate[d[0]] * w2.base_rate[d[2]]",
     "gen_product3_eq"),
    ("product2 (unlabelled): filter a > 0 -> a >= 0", "mul/non_labeled.rs", ".filter(|&d| a[d] > V::zero())",
     ".filter(|&d| a[d] >= V::zero())", "gen_product2_eq"),
    ("product2 (labelled): filter a > 0 -> a >= 0", "mul/labeled.rs", ".filter(|(_, &a)| a > V::zero())",
     ".filter(|(_, &a)| a >= V::zero())", ("exact", 0, {"gen_product2_labeled_eq"})),
    # ---- candidates for the joint uncertainty after repair abca806 (no cancellation): u0*(r1+u1) + r0*u1 with r = b/a
    ("product2 (unlabelled): r0 / r1 exchanged in the candidate", "mul/non_labeled.rs",
     "w0.u() * (r1 + w1.u()) + r0 * w1.u()", "w0.u() * (r0 + w1.u()) + r1 * w1.u()", ("exact", 0, {"gen_product2_eq"})),
    ("product2 (unlabelled): the term r0*u1 dropped from the candidate", "mul/non_labeled.rs",
     "w0.u() * (r1 + w1.u()) + r0 * w1.u()", "w0.u() * (r1 + w1.u())", ("exact", 0, {"gen_product2_eq"})),
    ("product2 (unlabelled): + -> - in the candidate", "mul/non_labeled.rs",
     "w0.u() * (r1 + w1.u()) + r0 * w1.u()", "w0.u() * (r1 + w1.u()) - r0 * w1.u()", ("exact", 0, {"gen_product2_eq"})),
    ("product2 (unlabelled): candidate distributed u0*r1 + u0*u1 + r0*u1 (same value in exact arithmetic: the tie must BREAK)",
     "mul/non_labeled.rs", "w0.u() * (r1 + w1.u()) + r0 * w1.u()", "w0.u() * r1 + w0.u() * w1.u() + r0 * w1.u()",
     ("exact", 0, {"gen_product2_eq"})),
    ("product2 (unlabelled): r1 = b / a -> a / b", "mul/non_labeled.rs",
     "let r1 = w1.b()[d[1]] / w1.base_rate[d[1]];\n                w0.u() * (r1 + w1.u()) + r0 * w1.u()",
     "let r1 = w1.base_rate[d[1]] / w1.b()[d[1]];\n                w0.u() * (r1 + w1.u()) + r0 * w1.u()",
     ("exact", 0, {"gen_product2_eq"})),
    ("product2 (unlabelled): the cancelling pre-repair candidate re-inserted (same value on exactly well-formed operands: the tie must BREAK)",
     "mul/non_labeled.rs",
     ".map(|d| {\n                let r0 = w0.b()[d[0]] / w0.base_rate[d[0]];\n                let r1 = w1.b()[d[1]] / w1.base_rate[d[1]];\n"
     "                w0.u() * (r1 + w1.u()) + r0 * w1.u()\n            })",
     ".map(|d| (p[d] - w0.b()[d[0]] * w1.b()[d[1]]) / a[d])", ("exact", 0, {"gen_product2_eq"})),
    ("product3 (unlabelled): + -> - in the inner sum of the candidate", "mul/non_labeled.rs",
     "r0 * (w1.u() * (r2 + w2.u()) + r1 * w2.u())", "r0 * (w1.u() * (r2 + w2.u()) - r1 * w2.u())",
     ("exact", 0, {"gen_product3_eq"})),
    ("product3 (unlabelled): r2 taken at d[1] (kind error => hole)", "mul/non_labeled.rs",
     "let r2 = w2.b()[d[2]] / w2.base_rate[d[2]];", "let r2 = w2.b()[d[1]] / w2.base_rate[d[2]];",
     ("exact", 3, {"gen_product3_eq"})),
    ("product2 (labelled): r0 / r1 exchanged in the closure pattern", "mul/labeled.rs",
     ".map(|((r0, r1), _)| u0 * (r1 + u1) + r0 * u1)", ".map(|((r1, r0), _)| u0 * (r1 + u1) + r0 * u1)",
     ("exact", 0, {"gen_product2_labeled_eq"})),
    ("product2 (labelled): the term r0*u1 dropped from the candidate", "mul/labeled.rs",
     ".map(|((r0, r1), _)| u0 * (r1 + u1) + r0 * u1)", ".map(|((_, r1), _)| u0 * (r1 + u1))",
     ("exact", 0, {"gen_product2_labeled_eq"})),
    ("product2 (labelled): + -> - in the candidate", "mul/labeled.rs",
     ".map(|((r0, r1), _)| u0 * (r1 + u1) + r0 * u1)", ".map(|((r0, r1), _)| u0 * (r1 + u1) - r0 * u1)",
     ("exact", 0, {"gen_product2_labeled_eq"})),
    ("product2 (labelled): (u0, u1) bound to (w1.u(), w0.u())", "mul/labeled.rs",
     "let (u0, u1) = (w0.u(), w1.u());", "let (u0, u1) = (w1.u(), w0.u());", ("exact", 0, {"gen_product2_labeled_eq"})),
    ("product2 (labelled): r1 = b / a -> a / b", "mul/labeled.rs",
     "let r1 = izip!(&w1.simplex.belief, w1.base_rate).map(|(&b, &a)| b / a);\n        let (u0, u1)",
     "let r1 = izip!(&w1.simplex.belief, w1.base_rate).map(|(&b, &a)| a / b);\n        let (u0, u1)",
     ("exact", 0, {"gen_product2_labeled_eq"})),
    ("product2 (labelled): r1 built from the operand w0 (shape error => holes)", "mul/labeled.rs",
     "let r1 = izip!(&w1.simplex.belief, w1.base_rate).map(|(&b, &a)| b / a);\n        let (u0, u1)",
     "let r1 = izip!(&w0.simplex.belief, w0.base_rate).map(|(&b, &a)| b / a);\n        let (u0, u1)",
     ("exact", 3, {"gen_product2_labeled_eq", "gen_merge_cond2_labeled_eq"})),
    ("product2 (labelled): iproduct!(r1, r0) (column-major pairing; shape error => holes)", "mul/labeled.rs",
     "izip!(iproduct!(r0, r1), &a)", "izip!(iproduct!(r1, r0), &a)",
     ("exact", 3, {"gen_product2_labeled_eq", "gen_merge_cond2_labeled_eq"})),
    ("product2 (labelled): iproduct! over a table instead of a mapped iterator (outside the subset => holes)", "mul/labeled.rs",
     "izip!(iproduct!(r0, r1), &a)", "izip!(iproduct!(r0, &w1.simplex.belief), &a)",
     ("exact", 3, {"gen_product2_labeled_eq", "gen_merge_cond2_labeled_eq"})),
    ("product2 (labelled): the cancelling pre-repair candidate re-inserted (same value on exactly well-formed operands: the tie must BREAK)",
     "mul/labeled.rs",
     "        let u = izip!(iproduct!(r0, r1), &a)\n            .filter(|(_, &a)| a > V::zero())\n"
     "            .map(|((r0, r1), _)| u0 * (r1 + u1) + r0 * u1)",
     "        let b_iter = product2_iter(&w0.simplex.belief, &w1.simplex.belief);\n"
     "        let u = izip!(p_iter.clone(), b_iter, &a)\n            .filter(|(_, _, &a)| a > V::zero())\n"
     "            .map(|(p, b, &a)| (p - b) / a)", ("exact", 0, {"gen_product2_labeled_eq"})),
    ("product3 (labelled): the term r1*u2 dropped from the candidate", "mul/labeled.rs",
     "r0 * (u1 * (r2 + u2) + r1 * u2))", "r0 * (u1 * (r2 + u2)))", ("exact", 0, {"gen_product3_labeled_eq"})),
    ("product3 (labelled): r1 / r2 exchanged in the closure pattern", "mul/labeled.rs",
     ".map(|((r0, r1, r2), _)|", ".map(|((r0, r2, r1), _)|", ("exact", 0, {"gen_product3_labeled_eq"})),
    ("product3 (labelled): nested item pattern ((r0, r1), r2) (not the flat tuples of iproduct!; outside the subset => hole)",
     "mul/labeled.rs", ".map(|((r0, r1, r2), _)|", ".map(|(((r0, r1), r2), _)|", ("exact", 3, {"gen_product3_labeled_eq"})),
    ("merge_cond2: x1_y inverted with ay instead of the marginal base rate", "mul.rs",
     "let x1_y = y_x1.inverse(ax1, mbr(ax1, y_x1).as_ref().unwrap_or(ay));", "let x1_y = y_x1.inverse(ax1, ay);",
     ("exact", 0, {"gen_merge_cond2_unlabeled_eq", "gen_merge_cond2_labeled_eq"})),
    ("merge_cond2: fallback product with swapped factors (shape error => holes)", "mul.rs",
     "unwrap_or_else(|| Product2::product2(ax1, ax2))", "unwrap_or_else(|| Product2::product2(ax2, ax1))",
     ("exact", 3, {"gen_merge_cond2_unlabeled_eq", "gen_merge_cond2_labeled_eq"})),
    ("guard group: product3_iter re-associated w0*(w1*w2) (only the labelled product3 becomes a hole)",
     "multi_array/labeled.rs", "iproduct!(w0, w1, w2).map(|(&v0, &v1, &v2)| v0 * v1 * v2)",
     "iproduct!(w0, product2_iter(w1, w2)).map(|(&v0, v12)| v0 * v12)", ("exact", 3, {"gen_product3_labeled_eq"})),
    ("guard group: MArr2::product2 swaps d[0] / d[1] (unlabelled product2 and its merge_cond2 become holes)",
     "multi_array/non_labeled.rs", "Self::from_fn(|d| w0[d[0]] * w1[d[1]])", "Self::from_fn(|d| w0[d[1]] * w1[d[0]])",
     ("exact", 3, {"gen_product2_eq", "gen_merge_cond2_unlabeled_eq"})),
    ("guard group: product2_iter commuted v1*v0 (labelled product2 and its merge_cond2 become holes)",
     "multi_array/labeled.rs", "iproduct!(w0, w1).map(|(&v0, &v1)| v0 * v1)", "iproduct!(w0, w1).map(|(&v0, &v1)| v1 * v0)",
     ("exact", 3, {"gen_product2_labeled_eq", "gen_merge_cond2_labeled_eq"})),
    ("guard group: MArrD3::product3 no longer built from product3_iter", "multi_array/labeled.rs",
     "Self::from_iter(product3_iter(w0, w1, w2))", "Self::from_iter(product3_iter(w0, w2, w1))",
     ("exact", 3, {"gen_product3_labeled_eq"})),
    ("into_opinion: no base-rate check", "mul/non_labeled.rs", "check_base_rate(&a)?;\n        Ok(Opinion1d {",
     "Ok(Opinion1d {", "gen_Simplex1d_into_opinion_eq"),
    ("product2 (labelled): p - a*u -> a*u - p in b", "mul/labeled.rs",
     "let b = p - a * u;", "let b = a * u - p;", "gen_product2_labeled_eq"),
    ("VALIDATE product2 (labelled): Opinion::new instead of normalized: ill-typed output becomes a hole", "mul/labeled.rs",
     "                b\n            }\n        }));\n        Opinion::normalized(b, u, a)",
     "                b\n            }\n        }));\n        Opinion::new(b, u, a)",
     ("exact", 3, {"gen_product2_labeled_eq", "gen_merge_cond2_labeled_eq"})),
    ("compute_simlex: harmless commutation in temp", "mul.rs",
     "let temp = lhs_u + rhs_u - lhs_u * rhs_u;", "let temp = lhs_u + rhs_u - rhs_u * lhs_u;",
     "gen_compute_simlex_eq"),
    ("compute_simlex: Avg arm 1+1 -> 1", "mul.rs",
     "let u = (V::one() + V::one()) * lhs_u * rhs_u / temp;", "let u = V::one() * lhs_u * rhs_u / temp;",
     "gen_compute_simlex_eq"),
    ("compute_base_rate: swap two guarded arms", "mul.rs",
     "FuseOp::Wgh if lhs.is_vacuous() => rhs.base_rate.clone(),\n            FuseOp::Wgh if rhs.is_vacuous() => lhs.base_rate.clone(),",
     "FuseOp::Wgh if rhs.is_vacuous() => lhs.base_rate.clone(),\n            FuseOp::Wgh if lhs.is_vacuous() => rhs.base_rate.clone(),",
     "gen_compute_base_rate_eq"),
    ("compute_base_rate: || -> && in a guard", "mul.rs",
     "FuseOp::ACm | FuseOp::ECm if lhs.is_vacuous() || rhs.is_dogmatic() => {\n                rhs.base_rate.clone()",
     "FuseOp::ACm | FuseOp::ECm if lhs.is_vacuous() && rhs.is_dogmatic() => {\n                rhs.base_rate.clone()",
     "gen_compute_base_rate_eq"),
    # ---- compute_base_rate after repair c8a7116: the per-entry shortcut is `if l == r { l } else { formula }`
    ("compute_base_rate: one shortcut test back to ulps_eq! (Avg arm)", "mul.rs", BR_AVG,
     BR_AVG.replace("if lhs.base_rate[i] == rhs.base_rate[i] {", "if ulps_eq!(lhs.base_rate[i], rhs.base_rate[i]) {"),
     ("exact", 0, {"gen_compute_base_rate_eq"})),
    ("compute_base_rate: one shortcut returns the right entry (Avg arm; differs on signed zeros only: the tie must BREAK)",
     "mul.rs", BR_AVG, BR_AVG[:-len("lhs.base_rate[i]")] + "rhs.base_rate[i]", ("exact", 0, {"gen_compute_base_rate_eq"})),
    ("compute_base_rate: one shortcut test with the operands exchanged (Wgh formula arm)", "mul.rs", BR_WGH,
     BR_WGH.replace("if lhs.base_rate[i] == rhs.base_rate[i] {", "if rhs.base_rate[i] == lhs.base_rate[i] {"),
     ("exact", 0, {"gen_compute_base_rate_eq"})),
    ("compute_base_rate: one shortcut removed (Wgh formula arm; same value in exact arithmetic: the tie must BREAK)", "mul.rs",
     BR_WGH, BR_WGH.replace("if lhs.base_rate[i] == rhs.base_rate[i] {", "if false {"), "gen_compute_base_rate_eq"),
    # a local closure over scalars that is later called (`let mid = |l: V, r: V| ..; .. mid(x, y)`, the shape of the
    # intermediate repair c0b2ed5) is translated as a let-bound function; other closure shapes stay explicit holes.
    # (two edits per mutation: old / new parts separated by a form feed)
    ("compute_base_rate: shortcut value through a local closure returning its first argument (same function: all pass)", "mul.rs",
     BR_HEAD + "\f" + BR_AVG,
     "    let pick = |l: V, r: V| l;\n" + BR_HEAD + "\f"
     + BR_AVG[:-len("lhs.base_rate[i]")] + "pick(lhs.base_rate[i], rhs.base_rate[i])", None),
    ("compute_base_rate: shortcut value through the closure `mid` of c0b2ed5 (mean of unequal entries)", "mul.rs",
     BR_HEAD + "\f" + BR_AVG,
     "    let mid = |l: V, r: V| if r == l { l } else { (l + r) / (V::one() + V::one()) };\n" + BR_HEAD + "\f"
     + BR_AVG[:-len("lhs.base_rate[i]")] + "mid(lhs.base_rate[i], rhs.base_rate[i])", ("exact", 0, {"gen_compute_base_rate_eq"})),
    ("compute_base_rate: local closure with unannotated parameters (refused shape: explicit hole)", "mul.rs",
     BR_HEAD + "\f" + BR_AVG,
     "    let pick = |l, r| l;\n" + BR_HEAD + "\f" + BR_AVG[:-len("lhs.base_rate[i]")] + "pick(lhs.base_rate[i], rhs.base_rate[i])",
     ("exact", 3, FUSE_DEPS)),
    ("compute_base_rate: local closure declared `let mut` (refused shape: explicit hole)", "mul.rs",
     BR_HEAD, "    let mut pick = |l: V, r: V| l;\n" + BR_HEAD, ("exact", 3, FUSE_DEPS)),
    ("compute_base_rate: local closure with a return type annotation (refused shape: explicit hole)", "mul.rs",
     BR_HEAD, "    let pick = |l: V, r: V| -> V { l };\n" + BR_HEAD, ("exact", 3, FUSE_DEPS)),
    ("compute_base_rate: local closure called with a non-scalar argument (refused: explicit hole)", "mul.rs",
     BR_HEAD + "\f" + BR_AVG,
     "    let pick = |l: V, r: V| l;\n" + BR_HEAD + "\f" + BR_AVG[:-len("lhs.base_rate[i]")] + "pick(lhs.base_rate[i], i)",
     ("exact", 3, FUSE_DEPS)),
    ("max_uncertainty: p/a -> a/p", "mul.rs", "p[i] / a[i]", "a[i] / p[i]", "gen_max_uncertainty_eq"),
    ("max_uncertainty: min -> max", "mul.rs", "u = u.min(temp);", "u = u.max(temp);", "gen_max_uncertainty_eq"),
    ("uncertainty_maximized: - -> +", "mul.rs", "p[i] - a[i] * u_max", "p[i] + a[i] * u_max",
     "gen_uncertainty_maximized_eq"),
    # repair 8520ade: clamp of the rounding residue of every b_max[i] in uncertainty_maximized
    ("uncertainty_maximized clamp: removed", "mul.rs",
     "* u_max;\n            if b < V::zero() {\n                V::zero()\n            } else {\n                b\n            }\n",
     "* u_max;\n            b\n", "gen_uncertainty_maximized_eq"),
    ("uncertainty_maximized clamp: `<` -> `>`", "mul.rs",
     "* u_max;\n            if b < V::zero() {", "* u_max;\n            if b > V::zero() {", "gen_uncertainty_maximized_eq"),
    ("uncertainty_maximized clamp: `<` -> `<=`", "mul.rs",
     "* u_max;\n            if b < V::zero() {", "* u_max;\n            if b <= V::zero() {", "gen_uncertainty_maximized_eq"),
    ("uncertainty_maximized clamp: clamped to one instead of zero", "mul.rs",
     "* u_max;\n            if b < V::zero() {\n                V::zero()", "* u_max;\n            if b < V::zero() {\n                V::one()",
     "gen_uncertainty_maximized_eq"),
    ("uncertainty_maximized clamp: branches swapped", "mul.rs",
     "* u_max;\n            if b < V::zero() {\n                V::zero()\n            } else {\n                b\n",
     "* u_max;\n            if b < V::zero() {\n                b\n            } else {\n                V::zero()\n",
     "gen_uncertainty_maximized_eq"),
    ("uncertainty_maximized clamp: compares u_max instead of b", "mul.rs",
     "* u_max;\n            if b < V::zero() {", "* u_max;\n            if u_max < V::zero() {", "gen_uncertainty_maximized_eq"),
    ("uncertainty_maximized clamp: clamps u_max instead of the masses", "mul.rs",
     "* u_max;\n            if b < V::zero() {\n                V::zero()\n            } else {\n                b\n            }\n"
     "        });\n"
     "        // sum(b_max) + u_max = 1 - u_max * (sum(a) - 1): renormalise like every other operator that builds b = p - a*u\n"
     "        Simplex::normalized(b_max, u_max)",
     "* u_max;\n            b\n        });\n"
     "        Simplex::normalized(b_max, if u_max < V::zero() { V::zero() } else { u_max })", "gen_uncertainty_maximized_eq"),
    ("normalize_prob_dist: accumulate squares", "mul.rs", "s += p[i];", "s += p[i] * p[i];",
     "gen_normalize_prob_dist_eq"),
    ("Simplex::normalized: drop `u /= s`", "mul.rs", "        u /= s;\n", "", "gen_Simplex_normalized_eq"),
    ("projection: a*u -> u*a", "mul.rs",
     "self.b()[idx.clone()] + self.base_rate[idx] * self.u()", "self.b()[idx.clone()] + self.u() * self.base_rate[idx]",
     "gen_OpinionRef_projection_eq"),
    ("discount: b*t -> t*b", "mul.rs", "map(|&b| b * t)", "map(|&b| t * b)", "gen_Simplex_discount_eq"),
    ("fuse: matches!(ECm) -> matches!(ACm)", "mul.rs",
     "let s = if matches!(self, FuseOp::ECm) {", "let s = if matches!(self, FuseOp::ACm) {", "gen_fuse_eq"),
    ("fuse: swap the branches of the ECm test", "mul.rs",
     "            s.uncertainty_maximized(&a)\n        } else {\n            s\n        };",
     "            s\n        } else {\n            s.uncertainty_maximized(&a)\n        };", "gen_fuse_eq"),
    ("mbr: == -> <= in the zero test", "mul.rs", "if sum_a == V::zero() {", "if sum_a <= V::zero() {", "gen_mbr_eq"),
    ("mbr: ax[x]*b -> b*ax[x]", "mul.rs",
     ".map(|x| ax[x] * conds[x].borrow().belief[y.clone()])", ".map(|x| conds[x].borrow().belief[y.clone()] * ax[x])",
     "gen_mbr_eq"),
    ("deduce_of: swap the factors in the u sum", "mul.rs",
     ".map(|x| (uyhx - conds[x].borrow().uncertainty) * wx.b()[x])",
     ".map(|x| wx.b()[x] * (uyhx - conds[x].borrow().uncertainty))", "gen_deduce_of_eq"),
    ("deduce_of: inner reduce min -> max", "mul.rs",
     ".map(|x| conds[x].borrow().belief[y])\n                    .reduce(<V>::min)",
     ".map(|x| conds[x].borrow().belief[y])\n                    .reduce(<V>::max)", "gen_deduce_of_eq"),
    ("inverse: irrelevance max -> min", "mul.rs",
     "V::one() - T::indexes().map(|x| p_yx[x][y]).reduce(<V>::max).unwrap()",
     "V::one() - T::indexes().map(|x| p_yx[x][y]).reduce(<V>::min).unwrap()", "gen_inverse_eq"),
    ("inverse: drop the `!` of the filter", "mul.rs", ".filter(|&y| !is_zero(ay[y]))", ".filter(|&y| is_zero(ay[y]))",
     "gen_inverse_eq"),
    ("inverse: unwrap_or(one) -> unwrap_or(zero)", "mul.rs", ".unwrap_or(V::one())", ".unwrap_or(V::zero())",
     "gen_inverse_eq"),
    # repair 9ec2d8b: clamps of the rounding residue in deduce_of (u and every b[y]) and inverse (every b[x])
    ("deduce_of clamp: u `<` -> `>`", "mul.rs",
     "let u = if u < V::zero() { V::zero() } else { u };", "let u = if u > V::zero() { V::zero() } else { u };",
     "gen_deduce_of_eq"),
    ("deduce_of clamp: u clamp removed", "mul.rs",
     "    let u = if u < V::zero() { V::zero() } else { u };\n", "", "gen_deduce_of_eq"),
    ("deduce_of clamp: u clamped to one instead of zero", "mul.rs",
     "let u = if u < V::zero() { V::zero() } else { u };", "let u = if u < V::zero() { V::one() } else { u };",
     "gen_deduce_of_eq"),
    ("deduce_of clamp: u branches swapped", "mul.rs",
     "let u = if u < V::zero() { V::zero() } else { u };", "let u = if u < V::zero() { u } else { V::zero() };",
     "gen_deduce_of_eq"),
    ("deduce_of clamp: b `<` -> `>`", "mul.rs",
     "- ay[y] * u;\n        if b < V::zero() {", "- ay[y] * u;\n        if b > V::zero() {", "gen_deduce_of_eq"),
    ("deduce_of clamp: b `<` -> `<=`", "mul.rs",
     "- ay[y] * u;\n        if b < V::zero() {", "- ay[y] * u;\n        if b <= V::zero() {", "gen_deduce_of_eq"),
    ("deduce_of clamp: b clamp removed", "mul.rs",
     "- ay[y] * u;\n        if b < V::zero() {\n            V::zero()\n        } else {\n            b\n        }\n",
     "- ay[y] * u;\n        b\n", "gen_deduce_of_eq"),
    ("deduce_of clamp: b clamped to one instead of zero", "mul.rs",
     "- ay[y] * u;\n        if b < V::zero() {\n            V::zero()", "- ay[y] * u;\n        if b < V::zero() {\n            V::one()",
     "gen_deduce_of_eq"),
    ("inverse clamp: b `<` -> `>`", "mul.rs",
     "- u * ax[x];\n                if b < V::zero() {", "- u * ax[x];\n                if b > V::zero() {", "gen_inverse_eq"),
    ("inverse clamp: b clamp removed", "mul.rs",
     "- u * ax[x];\n                if b < V::zero() {\n                    V::zero()\n                } else {\n"
     "                    b\n                }\n",
     "- u * ax[x];\n                b\n", "gen_inverse_eq"),
    ("inverse clamp: b clamped to one instead of zero", "mul.rs",
     "- u * ax[x];\n                if b < V::zero() {\n                    V::zero()",
     "- u * ax[x];\n                if b < V::zero() {\n                    V::one()", "gen_inverse_eq"),
    ("inverse clamp: compares u instead of b", "mul.rs",
     "- u * ax[x];\n                if b < V::zero() {", "- u * ax[x];\n                if u < V::zero() {", "gen_inverse_eq"),
    ("deduce_of clamp: shape outside the subset (`let u = match ..`) => hole", "mul.rs",
     "let u = if u < V::zero() { V::zero() } else { u };", "let u = match u < V::zero() { true => V::zero(), false => u };",
     ("file", 3, {"gen_deduce_of_eq"}, {"gen_inverse_eq", "gen_mbr_eq"})),
    ("inverse: syntax outside the subset (.rev())", "mul.rs",
     "let u_yx_sum = T::indexes().map(|x| u_yx[x]).sum::<V>();",
     "let u_yx_sum = T::indexes().rev().map(|x| u_yx[x]).sum::<V>();",
     ("exact", 3, {"gen_inverse_eq", "gen_abduce_with_eq", "gen_abduce_eq", "gen_OpinionRef_abduce_with_eq",
                   "gen_OpinionRef_abduce_eq", "gen_Opinion_abduce_with_eq", "gen_Opinion_abduce_eq",
                   "gen_merge_cond2_unlabeled_eq", "gen_merge_cond2_labeled_eq"})),
]


def run(cmd, **kw):
    p = subprocess.run(cmd, stdout=subprocess.PIPE, stderr=subprocess.STDOUT, text=True, **kw)
    return p.returncode, p.stdout


def check(gen_path, tie_path, scratch_lean):
    """-> (set of theorem names whose proof fails, other error text)"""
    gen = open(gen_path).read()
    tie = open(tie_path).read()
    tie = re.sub(r"^import SLV\.Gen\.\w+\n", "", tie, flags=re.M)
    tie = re.sub(r"/-.*?-/\n", "", tie, count=1, flags=re.S)          # module comment must precede imports only
    text = gen + "\n" + tie
    with open(scratch_lean, "w") as f:
        f.write(text)
    rc, out = run(["lake", "env", "lean", scratch_lean], cwd=LEAN)
    lines = text.split("\n")
    broken, other = set(), []
    starts = []                      # (first line of the declaration incl. its doc comment, name), 0-based
    doc = None
    for i, l in enumerate(lines):
        if l.startswith("/--"):
            doc = i
        mm = re.match(r"(?:theorem|def)\s+([\w'.]+)", l)
        if mm:
            starts.append((doc if doc is not None else i, mm.group(1)))
            doc = None
        elif l.strip() == "" and doc is not None and "-/" in "".join(lines[doc:i]):
            doc = None
    for m in re.finditer(r"^%s:(\d+):\d+: error" % re.escape(scratch_lean), out, flags=re.M):
        ln = int(m.group(1)) - 1
        name = None
        for st, nm in starts:
            if st <= ln:
                name = nm
        if name:
            broken.add(name)
        else:
            other.append(m.group(0))
    return broken, other, rc


def main():
    ap = argparse.ArgumentParser()
    ap.add_argument("--src", default="/repo/src")
    ap.add_argument("--keep", action="store_true")
    ap.add_argument("--file", dest="src_file", default="", help="only the mutations of this source file (e.g. errors.rs)")
    ap.add_argument("--match", default="", help="only run the mutations whose description contains this text")
    a = ap.parse_args()
    root = tempfile.mkdtemp(prefix="rs2lean_scratch_")
    ok_all = True
    try:
        for idx, (name, fname, old, new, expect) in enumerate(MUTATIONS):
            if a.match and a.match not in name:
                continue
            if a.src_file and fname != a.src_file:
                continue
            d = os.path.join(root, "m%02d" % idx)
            src = os.path.join(d, "src")
            out = os.path.join(d, "out")
            shutil.copytree(a.src, src)
            os.makedirs(out)
            which = "bi" if fname in ("bi.rs", "convert.rs", "approx_ext.rs", "errors.rs") else "mul"
            if "@" in fname:                 # "mul.rs@bi": mutate mul.rs, check Bi.lean / BiTie.lean
                fname, which = fname.split("@")
            if old == "DELETE":
                os.remove(os.path.join(src, fname))
            elif old is not None:
                p = os.path.join(src, fname)
                t = open(p).read()
                if any(t.count(o_) < 1 for o_ in old.split("\f")) or len(old.split("\f")) != len(new.split("\f")):
                    print("SKIP  %-70s (pattern not found in %s)" % (name, fname))
                    ok_all = False
                    continue
                for o_, n_ in zip(old.split("\f"), new.split("\f")):      # several edits: parts separated by a form feed
                    t = t.replace(o_, n_, 1)
                open(p, "w").write(t)
            rc, tout = run([sys.executable, os.path.join(HERE, "rs2lean.py"), "--src", src, "--out", out, "--only", which]
                           + (["--validate", "--lean-root", LEAN] if name.startswith("VALIDATE") else []))
            holes = [l.split("UNTRANSLATABLE ")[1].split(":")[0] for l in tout.split("\n") if "UNTRANSLATABLE" in l]
            if rc == 2 or (isinstance(expect, tuple) and expect[0] == "fatal"):
                verdict = "ok" if isinstance(expect, tuple) and expect[0] == "fatal" and rc == 2 else "UNEXPECTED"
                ok_all &= verdict == "ok"
                print("%-10s %-72s translator exit %d: %s" % (verdict, name, rc, tout.strip().split("\n")[0][:150]))
                continue
            gen = os.path.join(out, "Bi.lean" if which == "bi" else "Mul.lean")
            tie = os.path.join(LEAN, "SLV/Gen", "BiTie.lean" if which == "bi" else "MulTie.lean")
            broken, other, lrc = check(gen, tie, os.path.join(d, "Scratch.lean"))
            broken = {b_ for b_ in broken if b_.startswith("gen_")}
            if expect is None:
                verdict = "ok" if not broken and lrc == 0 and rc == 0 else "UNEXPECTED"
            elif isinstance(expect, str):
                verdict = "ok" if expect in broken else "UNEXPECTED"
            elif expect[0] == "exact":
                verdict = "ok" if broken == expect[2] and rc == expect[1] else "UNEXPECTED"
            elif expect[0] == "file":
                verdict = "ok" if expect[2] <= broken and not (expect[3] & broken) and rc == expect[1] else "UNEXPECTED"
            else:
                verdict = "UNEXPECTED"
            ok_all &= verdict == "ok"
            print("%-10s %-72s rc=%d holes=%d broken: %s%s" % (verdict, name[:72], rc, len(holes), ", ".join(sorted(broken)) or "-",
                                                          ("  other: %s" % other) if other else ""))
    finally:
        if not a.keep:
            shutil.rmtree(root, ignore_errors=True)
        else:
            print("scratch kept in", root)
    print("SELFTEST", "PASSED" if ok_all else "FAILED")
    return 0 if ok_all else 1


if __name__ == "__main__":
    sys.exit(main())
