#!/usr/bin/env python3
"""
Mutation self-test of the rs2lean tie (does not touch /repo nor /verif/lean/SLV/Gen).

For every mutation: copy <src> to a scratch directory, apply ONE textual edit to bi.rs / mul.rs, run the
translator into the scratch directory, concatenate the generated file with the committed tie file
(SLV/Gen/BiTie.lean or MulTie.lean, its `import SLV.Gen.*` line dropped) into one scratch Lean file and run
`lake env lean` on it.  Reports which theorems stop checking.  The scratch directory is removed at the end.

  rs2lean_selftest.py [--src /repo/src] [--keep] [--match TEXT]
"""
import os, re, shutil, subprocess, sys, tempfile, argparse

HERE = os.path.dirname(os.path.abspath(__file__))
LEAN = "/verif/lean"

# (id, file, old, new, expectation)   expectation: theorem that must break | "TRANSLATOR" | None (all pass)
MUTATIONS = [
    ("control", "bi.rs", None, None, None),
    ("mul: base_rate -> b() in one factor", "bi.rs",
     "(1.0 - self.base_rate) * rhs.base_rate * self.b() * rhs.u()",
     "(1.0 - self.b()) * rhs.base_rate * self.b() * rhs.u()", "gen_mul_eq"),
    ("wfuse: swap two factors of a product", "bi.rs",
     "b = (self.b() * ca * rhs.u() + rhs.b() * cb * self.u()) / denom;",
     "b = (self.b() * rhs.u() * ca + rhs.b() * cb * self.u()) / denom;", "gen_wfuse_eq"),
    ("deduce: > -> >= in the case selector", "bi.rs",
     "match (cond[0].b() > cond[1].b(),", "match (cond[0].b() >= cond[1].b(),", "gen_deduce_eq"),
    ("deduce: cond[1].b() -> cond[0].b() in K (case II.A.1)", "bi.rs",
     "self.base_rate * self.u() * (bi - cond[1].b()) / (px * ay)",
     "self.base_rate * self.u() * (bi - cond[0].b()) / (px * ay)", "gen_deduce_eq"),
    ("deduce: swap the bodies' order of two match arms (false,true)<->(true,false)", "bi.rs",
     "(false, true) => {\n                                if bp {\n                                    // Case II.A.2",
     "(true, false) => {\n                                if bp {\n                                    // Case II.A.2",
     "gen_deduce_eq"),
    ("comul: harmless commutation d*d' -> d'*d", "bi.rs",
     "let d = self.d() * rhs.d()", "let d = rhs.d() * self.d()", "gen_comul_eq"),
    ("cfuse: && -> || in the vacuous test", "bi.rs",
     "let a = if ulps_eq!(*self.u(), 1.0) && ulps_eq!(*rhs.u(), 1.0)",
     "let a = if ulps_eq!(*self.u(), 1.0) || ulps_eq!(*rhs.u(), 1.0)", "gen_cfuse_eq"),
    ("cfuse: 2.0 -> 1.0", "bi.rs",
     "let a = if ulps_eq!(*self.u(), 1.0) && ulps_eq!(*rhs.u(), 1.0) {\n                    (self.base_rate + rhs.base_rate) / 2.0",
     "let a = if ulps_eq!(*self.u(), 1.0) && ulps_eq!(*rhs.u(), 1.0) {\n                    (self.base_rate + rhs.base_rate) / 1.0",
     "gen_cfuse_eq"),
    ("afuse: u = 0.0 -> u = 1.0 in the dogmatic branch", "bi.rs", "u = 0.0;", "u = 1.0;", "gen_afuse_eq"),
    ("trans_opp: error label u -> d", "bi.rs",
     'check_unit_interval(u, "u").unwrap();', 'check_unit_interval(u, "d").unwrap();', "gen_trans_opp_eq"),
    ("trans_bsr: drop a parenthesis level (reassociation)", "bi.rs",
     "1.0 - ev * (self.b() + self.d())", "1.0 - ev * self.b() + self.d()", "gen_trans_bsr_eq"),
    ("trans_unc: harmless extra parentheses (same tree: tie must HOLD)", "bi.rs",
     "1.0 - b + b * self.u()", "(1.0 - b) + (b * self.u())", None),
    ("check_simplex: swap the order of two checks", "bi.rs",
     'check_unit_interval(b, "b")?;\n    check_unit_interval(d, "d")?;',
     'check_unit_interval(d, "d")?;\n    check_unit_interval(b, "b")?;', "gen_check_simplex_eq"),
    ("try_new: check the simplex before the base rate", "bi.rs",
     "check_base_rate(a)?;\n                Ok(Self {\n                    simplex: BSimplex::<$ft>::try_new(b, d, u)?,\n                    base_rate: a,\n                })",
     "let s = BSimplex::<$ft>::try_new(b, d, u)?;\n                check_base_rate(a)?;\n                Ok(Self {\n                    simplex: s,\n                    base_rate: a,\n                })",
     "gen_try_new_eq"),
    ("projection: a*u -> u*a", "bi.rs", "self.b() + self.a() * self.u()", "self.b() + self.u() * self.a()",
     "gen_projection_eq"),
    ("mul: syntax outside the subset (.sqrt())", "bi.rs",
     "let a = self.base_rate * rhs.base_rate;", "let a = (self.base_rate * rhs.base_rate).sqrt();", "TRANSLATOR"),
    ("comul: syntax outside the subset (while loop)", "bi.rs",
     "let b = self.b() + rhs.b() - self.b() * rhs.b();",
     "let mut b = self.b() + rhs.b() - self.b() * rhs.b(); while b > 1.0 { b = b - 1.0; }", "TRANSLATOR"),
    ("guard: BSimplex::d reads belief[0]", "bi.rs", "&self.0.belief[1]", "&self.0.belief[0]", "TRANSLATOR"),
    ("guard: BOpinion::new_unchecked swaps b and d", "bi.rs",
     "simplex: BSimplex::new_unchecked(b, d, u),", "simplex: BSimplex::new_unchecked(d, b, u),", "TRANSLATOR"),
    # ---- mul.rs
    ("guard: Simplex::u returns something else", "mul.rs",
     "pub fn u(&self) -> &V {\n        &self.uncertainty", "pub fn u(&self) -> &V {\n        &self.belief_sum", "TRANSLATOR"),
    ("compute_simlex: harmless commutation in temp", "mul.rs",
     "let temp = lhs_u + rhs_u - lhs_u * rhs_u;", "let temp = lhs_u + rhs_u - rhs_u * lhs_u;",
     "gen_compute_simlex_eq"),
    ("compute_simlex: Avg arm 1+1 -> 1", "mul.rs",
     "let u = (V::one() + V::one()) * lhs_u * rhs_u / temp;", "let u = V::one() * lhs_u * rhs_u / temp;",
     "gen_compute_simlex_eq"),
    ("compute_base_rate: swap two guarded arms", "mul.rs",
     "FuseOp::Wgh if lhs.is_vacuous() => rhs.base_rate.clone(),\n            FuseOp::Wgh if rhs.is_vacuous() => lhs.base_rate.clone(),",
     "FuseOp::Wgh if rhs.is_vacuous() => lhs.base_rate.clone(),\n            FuseOp::Wgh if lhs.is_vacuous() => rhs.base_rate.clone(),",
     "gen_compute_base_rate_eq"),
    ("compute_base_rate: || -> && in a guard", "mul.rs",
     "FuseOp::ACm | FuseOp::ECm if lhs.is_vacuous() || rhs.is_dogmatic() => {\n                rhs.base_rate.clone()",
     "FuseOp::ACm | FuseOp::ECm if lhs.is_vacuous() && rhs.is_dogmatic() => {\n                rhs.base_rate.clone()",
     "gen_compute_base_rate_eq"),
    ("max_uncertainty: p/a -> a/p", "mul.rs", "p[i] / a[i]", "a[i] / p[i]", "gen_max_uncertainty_eq"),
    ("max_uncertainty: min -> max", "mul.rs", "u = u.min(temp);", "u = u.max(temp);", "gen_max_uncertainty_eq"),
    ("uncertainty_maximized: - -> +", "mul.rs", "p[i] - a[i] * u_max", "p[i] + a[i] * u_max",
     "gen_uncertainty_maximized_eq"),
    ("normalize_prob_dist: accumulate squares", "mul.rs", "s += p[i];", "s += p[i] * p[i];",
     "gen_normalize_prob_dist_eq"),
    ("Simplex::normalized: drop `u /= s`", "mul.rs", "        u /= s;\n", "", "gen_Simplex_normalized_eq"),
    ("projection: a*u -> u*a", "mul.rs",
     "self.b()[idx.clone()] + self.base_rate[idx] * self.u()", "self.b()[idx.clone()] + self.u() * self.base_rate[idx]",
     "gen_OpinionRef_projection_eq"),
    ("discount: b*t -> t*b", "mul.rs", "map(|&b| b * t)", "map(|&b| t * b)", "gen_Simplex_discount_eq"),
    ("fuse: matches!(ECm) -> matches!(ACm)", "mul.rs",
     "let s = if matches!(self, FuseOp::ECm) {", "let s = if matches!(self, FuseOp::ACm) {", "gen_fuse_eq"),
    ("fuse: swap the branches of the ECm test", "mul.rs",
     "            s.uncertainty_maximized(&a)\n        } else {\n            s\n        };",
     "            s\n        } else {\n            s.uncertainty_maximized(&a)\n        };", "gen_fuse_eq"),
    ("mbr: == -> <= in the zero test", "mul.rs", "if sum_a == V::zero() {", "if sum_a <= V::zero() {", "gen_mbr_eq"),
    ("mbr: ax[x]*b -> b*ax[x]", "mul.rs",
     ".map(|x| ax[x] * conds[x].borrow().belief[y.clone()])", ".map(|x| conds[x].borrow().belief[y.clone()] * ax[x])",
     "gen_mbr_eq"),
    ("deduce_of: swap the factors in the u sum", "mul.rs",
     ".map(|x| (uyhx - conds[x].borrow().uncertainty) * wx.b()[x])",
     ".map(|x| wx.b()[x] * (uyhx - conds[x].borrow().uncertainty))", "gen_deduce_of_eq"),
    ("deduce_of: inner reduce min -> max", "mul.rs",
     ".map(|x| conds[x].borrow().belief[y])\n                    .reduce(<V>::min)",
     ".map(|x| conds[x].borrow().belief[y])\n                    .reduce(<V>::max)", "gen_deduce_of_eq"),
    ("inverse: irrelevance max -> min", "mul.rs",
     "V::one() - T::indexes().map(|x| p_yx[x][y]).reduce(<V>::max).unwrap()",
     "V::one() - T::indexes().map(|x| p_yx[x][y]).reduce(<V>::min).unwrap()", "gen_inverse_eq"),
    ("inverse: drop the `!` of the filter", "mul.rs", ".filter(|&y| !is_zero(ay[y]))", ".filter(|&y| is_zero(ay[y]))",
     "gen_inverse_eq"),
    ("inverse: unwrap_or(one) -> unwrap_or(zero)", "mul.rs", ".unwrap_or(V::one())", ".unwrap_or(V::zero())",
     "gen_inverse_eq"),
    ("inverse: syntax outside the subset (.rev())", "mul.rs",
     "let u_yx_sum = T::indexes().map(|x| u_yx[x]).sum::<V>();",
     "let u_yx_sum = T::indexes().rev().map(|x| u_yx[x]).sum::<V>();", "TRANSLATOR"),
]


def run(cmd, **kw):
    p = subprocess.run(cmd, stdout=subprocess.PIPE, stderr=subprocess.STDOUT, text=True, **kw)
    return p.returncode, p.stdout


def check(gen_path, tie_path, scratch_lean):
    """-> (set of theorem names whose proof fails, other error text)"""
    gen = open(gen_path).read()
    tie = open(tie_path).read()
    tie = re.sub(r"^import SLV\.Gen\.\w+\n", "", tie, flags=re.M)
    tie = re.sub(r"/-.*?-/\n", "", tie, count=1, flags=re.S)          # module comment must precede imports only
    text = gen + "\n" + tie
    with open(scratch_lean, "w") as f:
        f.write(text)
    rc, out = run(["lake", "env", "lean", scratch_lean], cwd=LEAN)
    lines = text.split("\n")
    broken, other = set(), []
    for m in re.finditer(r"^%s:(\d+):\d+: error" % re.escape(scratch_lean), out, flags=re.M):
        ln = int(m.group(1))
        name = None
        for i in range(ln - 1, -1, -1):
            mm = re.match(r"\s*(?:theorem|def)\s+([\w'.]+)", lines[i])
            if mm:
                name = mm.group(1)
                break
        if name:
            broken.add(name)
        else:
            other.append(m.group(0))
    return broken, other, rc


def main():
    ap = argparse.ArgumentParser()
    ap.add_argument("--src", default="/repo/src")
    ap.add_argument("--keep", action="store_true")
    ap.add_argument("--match", default="", help="only run the mutations whose description contains this text")
    a = ap.parse_args()
    root = tempfile.mkdtemp(prefix="rs2lean_scratch_")
    ok_all = True
    try:
        for idx, (name, fname, old, new, expect) in enumerate(MUTATIONS):
            if a.match and a.match not in name:
                continue
            d = os.path.join(root, "m%02d" % idx)
            src = os.path.join(d, "src")
            out = os.path.join(d, "out")
            shutil.copytree(a.src, src)
            os.makedirs(out)
            if old is not None:
                p = os.path.join(src, fname)
                t = open(p).read()
                if t.count(old) < 1:
                    print("SKIP  %-70s (pattern not found in %s)" % (name, fname))
                    ok_all = False
                    continue
                t = t.replace(old, new, 1)
                open(p, "w").write(t)
            which = "bi" if fname == "bi.rs" else "mul"
            rc, tout = run([sys.executable, os.path.join(HERE, "rs2lean.py"), "--src", src, "--out", out, "--only", which])
            if rc != 0:
                msg = [l for l in tout.split("\n") if "unsupported" in l or "rs2lean:" in l][:1]
                verdict = "ok" if expect == "TRANSLATOR" else "UNEXPECTED"
                ok_all &= verdict == "ok"
                print("%-10s %-72s translator exit %d: %s" % (verdict, name, rc, msg[0] if msg else tout[-200:]))
                continue
            gen = os.path.join(out, "Bi.lean" if which == "bi" else "Mul.lean")
            tie = os.path.join(LEAN, "SLV/Gen", "BiTie.lean" if which == "bi" else "MulTie.lean")
            broken, other, lrc = check(gen, tie, os.path.join(d, "Scratch.lean"))
            if expect is None:
                verdict = "ok" if not broken and lrc == 0 else "UNEXPECTED"
            elif expect == "TRANSLATOR":
                verdict = "UNEXPECTED"
            else:
                verdict = "ok" if expect in broken else "UNEXPECTED"
            ok_all &= verdict == "ok"
            print("%-10s %-72s broken: %s%s" % (verdict, name, ", ".join(sorted(broken)) or "-",
                                              ("  other: %s" % other) if other else ""))
    finally:
        if not a.keep:
            shutil.rmtree(root, ignore_errors=True)
        else:
            print("scratch kept in", root)
    print("SELFTEST", "PASSED" if ok_all else "FAILED")
    return 0 if ok_all else 1


if __name__ == "__main__":
    sys.exit(main())
