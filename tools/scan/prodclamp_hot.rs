// enumerates products on which the UN-repaired unlabelled product panics with a belief-mass residue; prints harness case lines
use subjective_logic::mul::non_labeled::*;
use subjective_logic::mul::*;
use subjective_logic::ops::{Product2, Product3};
use std::panic::{catch_unwind, set_hook};
struct R(u64);
impl R { fn f(&mut self) -> f64 { self.0 ^= self.0 << 13; self.0 ^= self.0 >> 7; self.0 ^= self.0 << 17; (self.0 >> 11) as f64 / (1u64 << 53) as f64 } }
macro_rules! gen { ($ft:ty, $name:literal, $hex:expr) => {{
    fn op<const N: usize>(r: &mut R, shape: u32) -> Option<Opinion1d<$ft, N>> {
        let mut b = [0.0 as $ft; N]; let mut a = [0.0 as $ft; N]; let u: $ft;
        let mut av = [0.0f64; N]; let mut s = 0.0; for i in 0..N { av[i] = r.f() + 1e-3; s += av[i]; }
        if shape == 2 { av[N-1] += 4.0 * s; s = 0.0; for i in 0..N { s += av[i]; } }
        let mut sa: $ft = 0.0; for i in 0..N-1 { a[i] = (av[i] / s) as $ft; sa += a[i]; } a[N-1] = 1.0 - sa;
        match shape {
            0 => { let mut x = [0.0f64; 8]; let mut t = 0.0; for i in 0..=N { x[i] = r.f(); t += x[i]; }
                   let mut sb: $ft = 0.0; for i in 0..N { b[i] = (x[i] / t) as $ft; sb += b[i]; } u = 1.0 - sb; }
            1 => { u = 1.0; }
            _ => { let e = (r.f() * 0.1) as $ft; b[0] = e; u = 1.0 - e; }
        }
        Opinion1d::<$ft, N>::try_new(b, u, a).ok()
    }
    fn line<const N: usize>(w: &Opinion1d<$ft, N>) -> String {
        let mut s = String::new();
        for x in w.b().iter() { s += &format!(" {}", $hex(*x)); }
        s += &format!(" {}", $hex(w.u()));
        for x in w.base_rate.iter() { s += &format!(" {}", $hex(*x)); }
        s
    }
    let mut r = R(0x9E3779B97F4A7C15 ^ ($name.len() as u64));
    let mut hits = 0;
    let mut k = 0u64;
    while hits < 70 && k < 30_000_000 {
        k += 1;
        let (s0, s1, s2) = match k % 5 { 0 => (1, 0, 0), 1 => (2, 0, 0), 2 => (2, 2, 0), 3 => (0, 2, 1), _ => (1, 2, 0) };
        match k % 3 {
            0 => { let (Some(w0), Some(w1)) = (op::<2>(&mut r, s0), op::<2>(&mut r, s1)) else { continue };
                   if catch_unwind(|| Opinion::product2(w0.as_ref(), w1.as_ref())).is_err() { hits += 1; println!("prod2 {} M.o 2,2{}{}", $name, line(&w0), line(&w1)); } }
            1 => { let (Some(w0), Some(w1)) = (op::<2>(&mut r, s0), op::<3>(&mut r, s1)) else { continue };
                   if catch_unwind(|| Opinion::product2(w0.as_ref(), w1.as_ref())).is_err() { hits += 1; println!("prod2 {} M.o 2,3{}{}", $name, line(&w0), line(&w1)); } }
            _ => { let (Some(w0), Some(w1), Some(w2)) = (op::<2>(&mut r, s0), op::<2>(&mut r, s1), op::<2>(&mut r, s2)) else { continue };
                   if catch_unwind(|| Opinion::product3(w0.as_ref(), w1.as_ref(), w2.as_ref())).is_err() { hits += 1; println!("prod3 {} M.o 2,2,2{}{}{}", $name, line(&w0), line(&w1), line(&w2)); } }
        }
    }
    eprintln!("{}: {} hits in {} products", $name, hits, k);
}}}
fn main() {
    set_hook(Box::new(|_| {}));
    gen!(f64, "f64", |x: f64| format!("{:016x}", x.to_bits()));
    gen!(f32, "f32", |x: f32| format!("{:08x}", x.to_bits()));
}
