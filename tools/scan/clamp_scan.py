#!/usr/bin/env python3
"""clamp_scan.py <harness built against the crate WITHOUT repair 9ec2d8b> [--per=N] [--cap=N] [--jobs=N] [--out=FILE]

Collects the replay list gen/corpus/clamp_hot.txt.  Enumerates small dyadic grids (every operand exactly well-formed: masses and base
rates k/den with den = 4, 8 or 16, |X| in 2..4, |Y| in 2..3) for deduce, inverse, abduce and abduce_with -- the whole family when it has
at most --cap members (default 1.1 million; the families marked `big` below: three times that), otherwise that many members drawn
uniformly (fixed seed per family) -- runs them with the variant token `acc` through a harness linked against the
UN-REPAIRED crate (e.g. the scratch harness that `tools/trypatch.py <undo diff> .. --scratch=DIR` leaves in
DIR/s0/harness/target/release/slharness) and keeps the inputs whose returned value the crate's own checked constructor rejects
(answer `ok .. F`): an evenly spaced sample of at most --per inputs per (op, precision).  `deduce_with` calls `deduce_of` with the
marginal base rate whenever there is one, so its entries are `deduce` hits with a fallback base rate appended."""
import collections
import itertools
import os
import random
import subprocess
import sys
from fractions import Fraction as Fr

ROOT = os.path.dirname(os.path.dirname(os.path.dirname(os.path.abspath(__file__))))
sys.path.insert(0, ROOT)
from vlib import gen as G  # noqa: E402


def comps(total, parts, positive=False):
    if positive:
        return [tuple(k + 1 for k in c) for c in comps(total - parts, parts)]
    if parts == 1:
        return [(total,)]
    return [(k,) + r for k in range(total + 1) for r in comps(total - k, parts - 1)]


def family(op, den, n, m):
    """list of component lists; a member is one choice per component, concatenated"""
    sx, sy = comps(den, n + 1), comps(den, m + 1)
    conds = [sy] * n
    axp, ay = comps(den, n, True), comps(den, m)
    if op == "deduce":
        return [[s for s in sx if s[n] > 0], comps(den, n)] + conds
    if op == "inverse":
        return conds + [axp, ay]
    if op == "abduce":
        return [sy, [comps(den, m)[0]]] + conds + [axp]
    if op == "abduce_with":
        return [sy, [comps(den, m)[0]]] + conds + [axp, ay]
    raise ValueError(op)


def members(fam, cap, rng):
    size = 1
    for c in fam:
        size *= len(c)
    if size <= cap:
        for t in itertools.product(*fam):
            yield t
    else:
        for _ in range(cap):
            yield tuple(rng.choice(c) for c in fam)


FAMS = [("deduce", 4, 3, 2, 1), ("deduce", 4, 2, 2, 1), ("deduce", 4, 2, 3, 1), ("deduce", 8, 2, 2, 1), ("deduce", 4, 3, 3, 1),
        ("deduce", 8, 3, 2, 3), ("deduce", 16, 3, 2, 3), ("deduce", 8, 4, 2, 3), ("deduce", 8, 3, 3, 3),
        ("inverse", 4, 2, 2, 1), ("inverse", 8, 2, 2, 1), ("inverse", 4, 2, 3, 1), ("inverse", 4, 3, 2, 1), ("inverse", 8, 2, 3, 1),
        ("inverse", 4, 3, 3, 1), ("inverse", 16, 2, 2, 3), ("inverse", 16, 3, 2, 3), ("inverse", 16, 2, 3, 3), ("inverse", 16, 3, 3, 3),
        ("abduce", 4, 2, 2, 1), ("abduce", 4, 2, 3, 1), ("abduce", 4, 3, 2, 1), ("abduce", 8, 2, 2, 1), ("abduce", 4, 3, 3, 1),
        ("abduce_with", 4, 2, 2, 1), ("abduce_with", 4, 2, 3, 1), ("abduce_with", 4, 3, 2, 1), ("abduce_with", 8, 2, 2, 1)]


def scan_family(task):
    hb, op, den, n, m, fmt, cap, seed = task
    fam = family(op, den, n, m)
    rng = random.Random(seed)
    tried = found = 0
    hits = []
    buf = []

    def flush():
        nonlocal tried, found
        if not buf:
            return
        p = subprocess.run([hb], input="".join("s %s\n" % c for c in buf).encode(), stdout=subprocess.PIPE, stderr=subprocess.DEVNULL)
        for ln in p.stdout.decode().split("\n"):
            if " => " not in ln:
                continue
            case, ans = ln.split(" => ", 1)
            tried += 1
            if ans.startswith("ok ") and ans.rstrip().endswith(" F"):
                found += 1
                hits.append(case.split(" ", 1)[1])
        del buf[:]

    for t in members(fam, cap, rng):
        buf.append(G.line(op, fmt, "A.o.acc", [n, m], [Fr(v, den) for part in t for v in part]))
        if len(buf) >= 200000:
            flush()
    flush()
    return (op, fmt, "%s %s den %d %dx%d: %d/%d" % (op, fmt, den, n, m, found, tried), hits)


def main():
    import multiprocessing
    args = [a for a in sys.argv[1:] if not a.startswith("--")]
    opts = {a.split("=")[0]: a.split("=", 1)[1] for a in sys.argv[1:] if a.startswith("--") and "=" in a}
    hb = args[0]
    per = int(opts.get("--per", "40"))
    cap = int(opts.get("--cap", "1100000"))
    jobs = int(opts.get("--jobs", "8"))
    outp = opts.get("--out", os.path.join(ROOT, "gen", "corpus", "clamp_hot.txt"))
    tasks = [(hb, op, den, n, m, fmt, cap * big, 9020260 + 7 * i + (fmt == "f32"))
             for i, (op, den, n, m, big) in enumerate(FAMS) for fmt in ("f64", "f32")]
    hits = collections.defaultdict(list)
    stats = []
    with multiprocessing.Pool(jobs) as pool:
        for op, fmt, st, hs in pool.imap(scan_family, tasks):
            stats.append(st)
            hits[(op, fmt)] += hs
            print(st, flush=True)
    # deduce_with: a deduce hit plus a fallback base rate (not used: the marginal base rate exists)
    for fmt in ("f64", "f32"):
        for c in hits[("deduce", fmt)]:
            t = c.split(" ")
            m = int(t[3].split(",")[1])
            ay = [Fr(1, 4)] * m
            ay[0] = 1 - sum(ay[1:])
            hits[("deduce_with", fmt)].append(" ".join(["deduce_with"] + t[1:]) + " " + " ".join(G.hx(fmt, v) for v in ay))
    total = 0
    with open(outp, "w") as f:
        f.write("# Inputs (exactly well-formed dyadic operands, denominators 4 / 8 / 16, |X| in 2..4, |Y| in 2..3) on which deduce / deduce_with /\n"
                "# inverse / abduce / abduce_with returned a value that the crate's OWN checked constructor (Opinion::try_new, resp.\n"
                "# Simplex::try_new for an inverted conditional) rejected BEFORE repair 9ec2d8b: a belief mass (or the uncertainty) whose exact\n"
                "# value is 0 came out as a rounding residue below -eps.  Collected by tools/scan/clamp_scan.py (enumeration / uniform samples of\n"
                "# small grids against the un-repaired crate; an evenly spaced sample of the hits); replayed by `hot_cases` (vlib/props/C04.py,\n"
                "# C05.py) with the variant token `acc`.\n"
                "# rejected / tried per family:\n")
        for s in stats:
            f.write("#   " + s + "\n")
        styles = [fa + "." + st for fa in G.FAMS_1D for st in ("o", "r")]
        for (op, fmt), v in sorted(hits.items()):
            step = max(1, -(-len(v) // per))
            pick = v[::step][:per]
            for i, c in enumerate(pick):
                t = c.split(" ")
                t[2] = styles[i % len(styles)] + ".acc"
                f.write(" ".join(t) + "\n")
                total += 1
    print("wrote", outp, total, "cases")


if __name__ == "__main__":
    main()
