// binorm_scan.rs -- exhaustive search for operands on which BOpinion::mul / comul AS THEY WERE BEFORE REPAIR d46c983 (no
// renormalisation of b, d, u before the self-check) reject their own result.  Output: harness case lines on stdout
// (`bmul|bcomul|blaw <fmt> B.o <ints> <hex scalars>  # <family>`), statistics on stderr.  The selected lines are kept in
// /verif/gen/corpus/binorm_hot.txt and replayed by the generator streams `hot_cases` of vlib/props/C12.py and C19.py.
//     rustc -O binorm_scan.rs -o /tmp/binorm_scan && /tmp/binorm_scan > /tmp/binorm_all.txt
// Families:
//   dec-lit / dec-cmp : masses (1-p, 0, p) in the four placements with the zero on b or d, p in {1,2,5}*10^-k (k = 1..5) or j/100
//                       (j = 1..50), base rates j/100; `lit`: both non-zero masses are the decimal literals (float sum exactly
//                       1.0), `cmp`: the small one is the exact complement 1 - hi (exactly well-formed as rationals)
//   ch-lit / ch-cmp   : chains (x*y)*z vs x*(y*z) (blaw kinds 1 = mul, 3 = comul) on the grids g = 9, 10, 12: masses i/g, j/g, k/g
//                       as rounded quotients (`lit`; g = 12: shapes with a zero component only), or shapes with a zero component whose
//                       smaller non-zero mass is the exact complement of the larger one (`cmp`), base rates r/g
macro_rules! scan {
    ($name:ident, $ft:ty, $eps:expr, $fmt:expr, $hex:expr) => {
        mod $name {
        type V = $ft;
        const EPS: V = $eps;
        fn hx(v: V) -> String { format!($hex, v.to_bits()) }
        fn ok(b: V, d: V, u: V) -> bool {
            let s = b + d + u;
            let inu = |v: V| (v >= 0.0 && v <= 1.0) || v.abs() <= EPS || (v >= 1.0 - 2.0 * EPS && v <= 1.0 + 4.0 * EPS);
            s >= 1.0 - 2.0 * EPS && s <= 1.0 + 4.0 * EPS && inu(b) && inu(d) && inu(u)
        }
        fn mul(x: [V; 4], y: [V; 4]) -> Option<[V; 4]> {
            let [xb, xd, xu, xa] = x; let [yb, yd, yu, ya] = y;
            let a = xa * ya;
            let na = (1.0 - xa) + (1.0 - ya) - (1.0 - xa) * (1.0 - ya);
            let b = xb * yb + ((1.0 - xa) * ya * xb * yu + (1.0 - ya) * xa * yb * xu) / na;
            let d = xd + yd - xd * yd;
            let u = xu * yu + ((1.0 - ya) * xb * yu + (1.0 - xa) * yb * xu) / na;
            if ok(b, d, u) { Some([b, d, u, a]) } else { None }
        }
        fn comul(x: [V; 4], y: [V; 4]) -> Option<[V; 4]> {
            let [xb, xd, xu, xa] = x; let [yb, yd, yu, ya] = y;
            let a = xa + ya - xa * ya;
            let b = xb + yb - xb * yb;
            let d = xd * yd + (xa * (1.0 - ya) * xd * yu + ya * (1.0 - xa) * yd * xu) / a;
            let u = xu * yu + (ya * xd * yu + xa * yd * xu) / a;
            if ok(b, d, u) { Some([b, d, u, a]) } else { None }
        }
        fn line(op: &str, ints: &str, ws: &[[V; 4]], fam: &str) {
            let sc: Vec<String> = ws.iter().flat_map(|w| w.iter().map(|v| hx(*v))).collect();
            println!("{} {} B.o {} {}  # {}", op, $fmt, ints, sc.join(" "), fam);
        }
        pub fn decimal() {
            let mut ps: Vec<(String, String)> = vec![];
            for k in 1..=5u32 { for m in [1u64, 2, 5] {
                ps.push((format!("0.{:0w$}", 10u64.pow(k) - m, w = k as usize), format!("{}e-{}", m, k)));
            }}
            for j in 1..=50u32 { ps.push((format!("0.{:02}", 100 - j), format!("0.{:02}", j))); }
            let mut shapes: Vec<(bool, [V; 3])> = vec![];
            for (his, los) in ps.iter() {
                let hi: V = his.parse().unwrap(); let lo: V = los.parse().unwrap();
                for (cmp, lo2) in [(false, lo), (true, 1.0 - hi)] {
                    if cmp && lo2 == lo { continue; }
                    for m in [[hi, 0.0, lo2], [lo2, 0.0, hi], [0.0, hi, lo2], [0.0, lo2, hi]] {
                        if m[0] + m[1] + m[2] == 1.0 { shapes.push((cmp, m)); }
                    }
                }
            }
            let rates: Vec<V> = (1..100).map(|j| format!("0.{:02}", j).parse().unwrap()).collect();
            let mut n = [0u64; 2];
            for sx in shapes.iter() { for sy in shapes.iter() {
                let fam = if sx.0 && sy.0 { "dec-cmp" } else if !sx.0 && !sy.0 { "dec-lit" } else { continue };
                for &xa in rates.iter() { for &ya in rates.iter() {
                    let x = [sx.1[0], sx.1[1], sx.1[2], xa]; let y = [sy.1[0], sy.1[1], sy.1[2], ya];
                    if mul(x, y).is_none() { n[0] += 1; line("bmul", "-", &[x, y], fam); }
                    if comul(x, y).is_none() { n[1] += 1; line("bcomul", "-", &[x, y], fam); }
                }}
            }}
            eprintln!("{} decimal: shapes {} failing mul {} comul {}", $fmt, shapes.len(), n[0], n[1]);
        }
        pub fn chain(g: u32) {
            let mut ops: Vec<(bool, [V; 4])> = vec![];
            for i in 0..=g { for j in 0..=(g - i) {
                let k = g - i - j;
                let zeros = [i, j, k].iter().filter(|&&v| v == 0).count();
                if g == 12 && zeros == 0 { continue; }
                let m = [i as V / g as V, j as V / g as V, k as V / g as V];
                if !ok(m[0], m[1], m[2]) { continue; }
                for r in 1..g { ops.push((false, [m[0], m[1], m[2], r as V / g as V])); }
                if zeros == 1 {
                    // the smaller non-zero mass := exact complement of the larger one (Sterbenz: the larger one is >= 1/2)
                    let mut c = m;
                    let (mut big, mut small) = (3usize, 3usize);
                    for t in 0..3 { if c[t] != 0.0 { if big == 3 || c[t] > c[big] { small = big; big = t; } else { small = t; } } }
                    if small < 3 && c[big] >= 0.5 {
                        c[small] = 1.0 - c[big];
                        if c != m && c[0] + c[1] + c[2] == 1.0 { for r in 1..g { ops.push((true, [c[0], c[1], c[2], r as V / g as V])); } }
                    }
                }
            }}
            let mut n = [0u64; 4];
            for cmp in [false, true] {
                let sel: Vec<[V; 4]> = ops.iter().filter(|o| o.0 == cmp).map(|o| o.1).collect();
                let fam = if cmp { format!("ch-cmp g={}", g) } else { format!("ch-lit g={}", g) };
                for x in sel.iter() { for y in sel.iter() {
                    let xy = mul(*x, *y); let cxy = comul(*x, *y);
                    for z in sel.iter() {
                        let l = xy.and_then(|w| mul(w, *z));
                        let r = mul(*y, *z).and_then(|w| mul(*x, w));
                        if l.is_none() || r.is_none() { n[2 * cmp as usize] += 1; line("blaw", "1", &[*x, *y, *z], &fam); }
                        let l = cxy.and_then(|w| comul(w, *z));
                        let r = comul(*y, *z).and_then(|w| comul(*x, w));
                        if l.is_none() || r.is_none() { n[2 * cmp as usize + 1] += 1; line("blaw", "3", &[*x, *y, *z], &fam); }
                    }
                }}
            }
            eprintln!("{} chains g={}: operands {} failing lit mul {} comul {}, cmp mul {} comul {}", $fmt, g, ops.len(), n[0], n[1], n[2], n[3]);
        }
        }
    };
}
scan!(s64, f64, f64::EPSILON, "f64", "{:016x}");
scan!(s32, f32, f32::EPSILON, "f32", "{:08x}");
fn main() {
    s64::decimal(); s32::decimal();
    for g in [9u32, 10, 12] { s64::chain(g); s32::chain(g); }
}
