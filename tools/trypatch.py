#!/usr/bin/env python3
"""trypatch.py <patch.diff | 'file:line:old=>new'> [PROPS comma separated] [--seeds N] [--bin DIR] [--scratch DIR]

Applies one change to a scratch copy of /repo (never to /repo itself), rebuilds scratch copies of the harnesses against it and runs the
quick-tier cases of the given properties (default: all) through harness + prebuilt model driver + oracles, exactly as `check`
classifies them, WITHOUT the proof / translation-tie part.  Used to try a generator or oracle change against a faulty
variant while /repo or the Lean tree is busy.  Scratch directory /tmp/trypatch (or --scratch=DIR: use a private one when several runs are in flight) is reused
(incremental builds) and can be deleted at any time."""
import collections
import importlib
import json
import os
import queue
import random
import subprocess
import sys

ROOT = os.path.dirname(os.path.dirname(os.path.abspath(__file__)))
sys.path.insert(0, os.path.join(ROOT, "tools"))
sys.path.insert(0, ROOT)
import mutsweep as M  # noqa: E402
from vlib import run as R  # noqa: E402


def main():
    args = [a for a in sys.argv[1:] if not a.startswith("--")]
    opts = {a.split("=")[0]: (a.split("=", 1)[1] if "=" in a else "1") for a in sys.argv[1:] if a.startswith("--")}
    change = args[0]
    props = args[1].split(",") if len(args) > 1 else M.PROPS
    seeds = int(opts.get("--seeds", "1"))
    scratch = opts.get("--scratch") or "/tmp/trypatch"
    os.makedirs(scratch, exist_ok=True)
    bindir = opts.get("--bin") or os.path.join(R.LEAN, ".lake", "build", "bin")
    json.dump({}, open(os.path.join(scratch, "cases.json"), "w"))
    q = queue.Queue()
    q.put(0)
    M.setup_slot(q, scratch, "/repo")
    d = M.SLOT
    repo = os.path.join(d, "repo")
    # rsync preserves mtimes: a file restored to its original content would look older than the last build to cargo
    for dp, _, fs in os.walk(os.path.join(repo, "src")):
        for f in fs:
            os.utime(os.path.join(dp, f))
    if os.path.exists(change):
        rc, out = M.sh(["patch", "-p1", "-i", os.path.abspath(change)], repo)
        print("patch rc=%d %s" % (rc, out.strip().split("\n")[-1]))
        if rc != 0:
            return 2
    elif change != "none":
        f, ln, rest = change.split(":", 2)
        old, new = rest.split("=>")
        fp = os.path.join(repo, f)
        L = open(fp).read().split("\n")
        assert old in L[int(ln) - 1], L[int(ln) - 1]
        L[int(ln) - 1] = L[int(ln) - 1].replace(old, new, 1)
        open(fp, "w").write("\n".join(L))
    rc, out = M.sh(["cargo", "test", "--offline", "--lib"], repo)
    print("crate tests:", [l for l in out.split("\n") if "test result" in l][:1] or out[-300:])
    for h in ("harness", "harness_arr"):
        rc, out = M.sh(["cargo", "build", "--release", "--offline"], os.path.join(d, h))
        if rc != 0:
            print(h, "does not build:", out[-500:])
            return 2
    finds, _ = R.load_known()
    for prop in props:
        spec = importlib.import_module("vlib.props." + prop)
        isarr = hasattr(spec, "HBIN")
        hb = os.path.join(d, "harness_arr/target/release/slarr") if isarr else os.path.join(d, "harness/target/release/slharness")
        drv = os.path.join(bindir, "slvarr" if isarr else "slvmodel")
        cs = []
        cp = os.path.join(ROOT, "gen", "corpus", prop + ".txt")
        if os.path.exists(cp):
            cs += [(ln.strip(), None) for ln in open(cp) if ln.strip() and not ln.startswith("#")]
        corpus = list(cs)
        cross = []
        rs_all, cs_all = [], []
        for sd in range(seeds):
            cs = list(corpus) if sd == 0 else []
            for g in spec.cases(random.Random(20260930 + sd), "quick"):
                cs.append((g[0], g[1]) if isinstance(g, tuple) else (g, None))
            rs1 = R.run_cases(prop, [c[0] for c in cs], "try", hb, drv)
            for r, c in zip(rs1, cs):
                r["meta"] = c[1]
            if hasattr(spec, "cross"):       # cross-case relations are evaluated per seed (group ids restart with every seed)
                try:
                    cross += spec.cross(rs1)
                except Exception as e:  # noqa: BLE001
                    cross.append({"name": "cross raised " + repr(e)})
            rs_all += rs1
            cs_all += cs
        rs, cs = rs_all, cs_all
        cnt = collections.Counter()
        ex = {}
        for r in rs:
            c = M.CHK.classify(r)
            if c in ("oracle_fail", "corr_broken", "impl_crash", "harness_problem") and M.CHK.known_match(prop, r, finds):
                c = "known"
            key = (c, r.get("oracle", "")[:70] if c == "oracle_fail" else (r.get("corr", "") if c == "corr_broken" else ""))
            cnt[key] += 1
            ex.setdefault(key, r)
        print(prop, len(cs), {" ".join(k).strip(): v for k, v in cnt.items()}, "cross:", collections.Counter(c["name"] for c in cross))
        for k, r in ex.items():
            if k[0] in ("oracle_fail", "corr_broken", "impl_crash"):
                print("   e.g.", r["case"][:230], "=>", r["impl"][:90], "::", r["raw"][:150])
    # restore the scratch copy
    M.copy_tree("/repo", repo, ["target", ".git"])
    return 0


if __name__ == "__main__":
    sys.exit(main())
