#!/usr/bin/env python3
"""seedcheck.py <prop> <label> <patch.diff> <demo.rs> [needs text] [--extra C02,C03]

Confirms a seeded faulty variant in a scratch worktree (compiles, 79 tests pass, demo fails with / passes without the change),
then applies it to /repo, runs the property's check(s), records the outcome under /verif/seeded/<prop>_<label>/ and restores /repo."""
import json, os, shutil, subprocess, sys, time

def sh(cmd, cwd=None, timeout=1800):
    p = subprocess.run(cmd, cwd=cwd, shell=isinstance(cmd, str), stdout=subprocess.PIPE, stderr=subprocess.STDOUT, text=True,
                       timeout=timeout, env=dict(os.environ, CARGO_NET_OFFLINE="true"))
    return p.returncode, p.stdout

prop, label, patch, demo = sys.argv[1:5]
needs = sys.argv[5] if len(sys.argv) > 5 and not sys.argv[5].startswith("--") else ""
extra = []
for a in sys.argv[5:]:
    if a.startswith("--extra"):
        extra = a.split("=", 1)[1].split(",") if "=" in a else []
tier = "quick"
out = {"property": prop, "label": label, "needs_to_manifest": needs, "ran": []}
wt = "/tmp/sc_%s_%s" % (prop, label)
sh("git -C /repo worktree remove --force %s" % wt)
rc, o = sh("git -C /repo worktree add -q --detach %s HEAD" % wt)
try:
    rc, o = sh("git apply %s" % os.path.abspath(patch), cwd=wt)
    out["patch_applies"] = rc == 0
    if rc != 0:
        out["error"] = o[-500:]
    else:
        rc, o = sh("cargo test --offline 2>&1 | grep 'test result' | head -1", cwd=wt)
        out["tests_with_patch"] = o.strip()
        os.makedirs(wt + "/tests", exist_ok=True)
        shutil.copy(demo, wt + "/tests/seed_demo.rs")
        rc1, o1 = sh("cargo test --offline --test seed_demo 2>&1 | tail -15", cwd=wt)
        out["demo_with_patch_fails"] = "test result: FAILED" in o1 or "panicked" in o1
        out["demo_with_patch_tail"] = o1[-600:]
        sh("git checkout -- src", cwd=wt)
        rc2, o2 = sh("cargo test --offline --test seed_demo 2>&1 | grep 'test result' | head -1", cwd=wt)
        out["demo_without_patch"] = o2.strip()
        out["demo_without_patch_passes"] = "test result: ok" in o2
finally:
    sh("git -C /repo worktree remove --force %s" % wt)
confirmed = out.get("patch_applies") and "79 passed" in out.get("tests_with_patch", "") and out.get("demo_with_patch_fails") and out.get("demo_without_patch_passes")
out["confirmed"] = bool(confirmed)
if confirmed:
    rc, o = sh("git -C /repo status --porcelain")
    assert o.strip() == "", "/repo not clean: " + o
    rc, o = sh("git -C /repo apply %s" % os.path.abspath(patch))
    try:
        for p in [prop] + extra:
            t0 = time.time()
            rc, o = sh("./check %s --tier %s" % (p, tier), cwd="/verif")
            viol = [l for l in o.split("\n") if l.startswith("VIOLATION")] + [l[:160] for l in o.split("\n") if l.startswith("KNOWN-FINDING")]
            # first failing input(s) reported by this run -> corpus of minimised past failures (runs first in every check)
            fails = []
            for l in viol:
                if "replay=" in l and "no-failing-input-found" not in l:
                    rp = l.split("replay=")[1].split()[0]
                    try:
                        rd = json.load(open(rp))
                        fails += rd.get("cases") or [rd["case"]]
                    except Exception:
                        pass
            if fails:
                os.makedirs("/verif/gen/corpus", exist_ok=True)
                cp = "/verif/gen/corpus/%s.txt" % p
                have = set(open(cp).read().split("\n")) if os.path.exists(cp) else set()
                with open(cp, "a") as f:
                    for c in fails[:4]:
                        if c not in have:
                            f.write("# seeded %s_%s\n%s\n" % (prop, label, c)); have.add(c)
            out.setdefault("first_failing_inputs", {})[p] = fails[:4]
            out["ran"].append({"cmd": "./check %s --tier %s" % (p, tier), "exit": rc, "lines": viol[:6],
                               "summary": [l for l in o.split("\n") if " tier=" in l][:1], "wall_s": round(time.time() - t0, 1)})
    finally:
        sh("git -C /repo checkout -- .")
    out["detected_by"] = [r["cmd"].split()[1] for r in out["ran"] if r["exit"] != 0]
    out["detected_with_input"] = [r["cmd"].split()[1] for r in out["ran"] if any("VIOLATION" in l and "no-failing-input-found" not in l for l in r["lines"])]
d = "/verif/seeded/%s_%s" % (prop, label)
os.makedirs(d, exist_ok=True)
shutil.copy(patch, d + "/patch.diff")
shutil.copy(demo, d + "/demo.rs")
json.dump(out, open(d + "/meta.json", "w"), indent=1)
print(json.dumps({k: out[k] for k in out if k not in ("demo_with_patch_tail",)}, indent=1))
