#!/usr/bin/env python3
"""coverage.py [--tier quick] [--out work/coverage.txt]

Which lines / functions of the crate do the generated cases of all 20 properties actually execute?  Builds instrumented copies
(`-C instrument-coverage`, nightly toolchain: its llvm-cov / llvm-profdata match) of the two harnesses against a copy of /repo's
COMMITTED tree (git archive HEAD; /repo itself is not touched), runs the quick-tier cases of every property through them and
prints, per source file of the crate, the line coverage and the functions that were never entered.  Not part of any registered
check: a tool to find entry points the generators never reach.  Scratch: /tmp/cov (removed at the end unless --keep)."""
import glob
import importlib
import os
import random
import shutil
import subprocess
import sys

ROOT = os.path.dirname(os.path.dirname(os.path.abspath(__file__)))
sys.path.insert(0, ROOT)
S = "/tmp/cov"
TC = os.path.expanduser("~/.rustup/toolchains/nightly-x86_64-unknown-linux-gnu")
LLVM = os.path.join(TC, "lib/rustlib/x86_64-unknown-linux-gnu/bin")


def sh(cmd, cwd=None, env=None, inp=None):
    p = subprocess.run(cmd, cwd=cwd, env=env, input=inp, stdout=subprocess.PIPE, stderr=subprocess.STDOUT)
    return p.returncode, p.stdout.decode(errors="replace")


def main():
    keep = "--keep" in sys.argv
    out = os.path.join(ROOT, "work", "coverage.txt")
    for i, a in enumerate(sys.argv):
        if a == "--out":
            out = sys.argv[i + 1]
    shutil.rmtree(S, ignore_errors=True)
    os.makedirs(S + "/repo")
    os.makedirs(S + "/prof")
    subprocess.run("git -C /repo archive HEAD | tar -x -C %s/repo" % S, shell=True, check=True)
    env = dict(os.environ, CARGO_NET_OFFLINE="true",
               RUSTFLAGS="-C instrument-coverage --cfg subjective_logic_verif", RUSTUP_TOOLCHAIN="nightly")
    bins = {}
    for h, b in (("harness", "slharness"), ("harness_arr", "slarr")):
        d = os.path.join(S, h)
        subprocess.run(["rsync", "-a", "--exclude", "target", os.path.join(ROOT, h) + "/", d + "/"], check=True)
        ct = os.path.join(d, "Cargo.toml")
        txt = open(ct).read().replace('path = "/repo"', 'path = "%s/repo"' % S)
        open(ct, "w").write(txt)
        cc = os.path.join(d, ".cargo", "config.toml")
        open(cc, "w").write("[net]\noffline = true\n[build]\ntarget-dir = \"%s/target\"\n" % d)
        rc, o = sh(["cargo", "build", "--release", "--offline"], cwd=d, env=env)
        if rc != 0:
            print(o[-3000:])
            return 2
        bins[h] = os.path.join(d, "target", "release", b)
    n = 0
    for i in range(1, 21):
        prop = "C%02d" % i
        spec = importlib.import_module("vlib.props." + prop)
        cs = []
        cp = os.path.join(ROOT, "gen", "corpus", prop + ".txt")
        if os.path.exists(cp):
            cs += [ln.strip() for ln in open(cp) if ln.strip() and not ln.startswith("#")]
        for g in spec.cases(random.Random(20260930), "quick"):
            cs.append(g[0] if isinstance(g, tuple) else g)
        inp = "".join("%d %s\n" % (k, c) for k, c in enumerate(cs)).encode()
        hb = bins["harness_arr" if hasattr(spec, "HBIN") else "harness"]
        e2 = dict(os.environ, LLVM_PROFILE_FILE="%s/prof/%s-%%p.profraw" % (S, prop))
        rc, o = sh([hb], env=e2, inp=inp)
        n += len(cs)
    print("ran %d cases" % n)
    sh([os.path.join(LLVM, "llvm-profdata"), "merge", "-sparse", "-o", S + "/all.profdata"] + glob.glob(S + "/prof/*.profraw"))
    objs = []
    for b in bins.values():
        objs += ["-object", b]
    rc, rep = sh([os.path.join(LLVM, "llvm-cov"), "report", "-instr-profile", S + "/all.profdata"] + objs[1:2] + objs[2:] +
                 ["-ignore-filename-regex", "(registry|rustc|harness)"])
    rc, fn = sh([os.path.join(LLVM, "llvm-cov"), "report", "-show-functions", "-instr-profile", S + "/all.profdata"] + objs[1:2] + objs[2:] +
                ["-ignore-filename-regex", "(registry|rustc|harness)"] + glob.glob(S + "/repo/src/*.rs") + glob.glob(S + "/repo/src/*/*.rs"))
    rc, show = sh([os.path.join(LLVM, "llvm-cov"), "show", "-instr-profile", S + "/all.profdata"] + objs[1:2] + objs[2:] +
                  ["-ignore-filename-regex", "(registry|rustc|harness)", "-show-line-counts-or-regions", "-Xdemangler", "rustfilt"])
    os.makedirs(os.path.dirname(out), exist_ok=True)
    with open(out, "w") as f:
        f.write(rep + "\n\n==== functions ====\n" + fn)
    open(out.replace(".txt", "_lines.txt"), "w").write(show)
    print(rep[-2500:])
    if not keep:
        shutil.rmtree(S, ignore_errors=True)
    return 0


if __name__ == "__main__":
    sys.exit(main())
