#!/usr/bin/env python3
"""mutsweep.py -- systematic mutation sweep: how many small faults of /repo's operators do the checks see WITH A FAILING INPUT?

Complements the hand-made seeded variants (seeded/): those are few and deliberate, this is many and mechanical.
Nothing here is part of a registered check; nothing is written to /repo (every mutant lives in a scratch copy under
--scratch, default /tmp/mut, removed at the end).

For every mutant (one token of non-test code changed: arithmetic / comparison / Boolean operator swapped, min<->max,
zero<->one, lhs<->rhs, is_vacuous<->is_dogmatic, is_zero<->is_one, a `!` dropped):
  1. `cargo test --offline --lib` in the scratch copy: does not compile -> stillborn; a test fails -> killed_by_tests;
  2. otherwise the harness is rebuilt against the scratch copy and the quick-tier cases of every property (fixed seed, plus
     corpus) run through it, the exact Lean model (prebuilt driver) and the oracles, exactly as `check` classifies them:
     `input`  = some property reports a concrete failing input (oracle failure, crash, cross-case relation),
     `corr`   = only the correspondence with the exact model breaks (would be reported `no-failing-input-found`),
     `tie`    = no case differs, but the translator's output for the scratch source differs from the current Gen files
                (the translation tie would break; reported `no-failing-input-found`),
     `silent` = nothing sees it (equivalent mutant, or a gap).
Results: one JSON line per mutant in --out, summary on stdout.
"""
import argparse
import collections
import importlib.machinery
import importlib.util
import json
import multiprocessing as mp
import os
import random
import re
import shutil
import subprocess
import sys
import time

ROOT = os.path.dirname(os.path.dirname(os.path.abspath(__file__)))
sys.path.insert(0, ROOT)
from vlib import run as R  # noqa: E402

_loader = importlib.machinery.SourceFileLoader("checkmod", os.path.join(ROOT, "check"))
_spec = importlib.util.spec_from_loader("checkmod", _loader)
CHK = importlib.util.module_from_spec(_spec)
_loader.exec_module(CHK)

PROPS = ["C%02d" % i for i in range(1, 21)]
FILES = ["src/approx_ext.rs", "src/bi.rs", "src/convert.rs", "src/errors.rs", "src/iter.rs", "src/domain.rs", "src/ops.rs",
         "src/mul.rs", "src/mul/labeled.rs", "src/mul/non_labeled.rs", "src/multi_array/labeled.rs", "src/multi_array/non_labeled.rs"]

SWAPS = [
    (r" \+ ", " - "), (r" - ", " + "), (r" \* ", " / "), (r" / ", " * "),
    (r" < ", " <= "), (r" <= ", " < "), (r" > ", " >= "), (r" >= ", " > "), (r" == ", " != "), (r" != ", " == "),
    (r" && ", " || "), (r" \|\| ", " && "),
    (r"\.min\(", ".max("), (r"\.max\(", ".min("), (r"::min\b", "::max"), (r"::max\b", "::min"),
    (r"::zero\(\)", "::one()"), (r"::one\(\)", "::zero()"),
    (r"\bis_zero\(", "is_one("), (r"\bis_one\(", "is_zero("),
    (r"\bis_vacuous\(\)", "is_dogmatic()"), (r"\bis_dogmatic\(\)", "is_vacuous()"),
    (r"\blhs\b", "rhs"), (r"\brhs\b", "lhs"), (r"\blhs_u\b", "rhs_u"), (r"\brhs_u\b", "lhs_u"),
    (r"\blhs_sum_b\b", "rhs_sum_b"), (r"\brhs_sum_b\b", "lhs_sum_b"),
    (r"!(?=[a-zA-Z_(])", ""),
    (r"\+= ", "-= "), (r"\*= ", "/= "),
    (r"\b0\.\.", "1.."), (r"\.\.=", ".."),
]


def enumerate_mutants(repo):
    out = []
    for f in FILES:
        p = os.path.join(repo, f)
        if not os.path.exists(p):
            continue
        lines = open(p).read().split("\n")
        end = len(lines)
        for i, ln in enumerate(lines):
            if ln.strip().startswith("#[cfg(test)]"):
                end = i
                break
        depth_where = False
        for i in range(end):
            ln = lines[i]
            st = ln.strip()
            if not st or st.startswith("//") or st.startswith("#[") or st.startswith("use ") or st.startswith("pub use "):
                continue
            # generic bounds / signatures: a `+` or `<` there is syntax, not arithmetic
            if re.match(r"^(pub |impl|where|fn |trait |type |struct |enum |macro_rules|\$|[A-Z]\w*(<.*>)?: )", st) or st.endswith(",") and re.match(r"^[A-Z][\w:<>, ]*: ", st):
                continue
            code = ln.split("//")[0]
            for pat, rep in SWAPS:
                for m in re.finditer(pat, code):
                    new = code[:m.start()] + rep + code[m.end():] + ln[len(code):]
                    out.append({"file": f, "line": i + 1, "old": ln.strip(), "new": new.strip(), "pat": pat, "col": m.start(),
                                "newline": new})
    return out


def sh(cmd, cwd, timeout=900):
    env = dict(os.environ, CARGO_NET_OFFLINE="true")
    try:
        p = subprocess.run(cmd, cwd=cwd, env=env, stdout=subprocess.PIPE, stderr=subprocess.STDOUT, text=True, timeout=timeout)
        return p.returncode, p.stdout
    except subprocess.TimeoutExpired:
        return 124, "timeout"


def copy_tree(src, dst, exclude):
    sh(["rsync", "-a", "--delete"] + sum([["--exclude", e] for e in exclude], []) + [src + "/", dst + "/"], cwd="/")


SLOT = None
CASES = None
BIN = None      # private copies of the model drivers (the ones under lean/.lake are rebuilt by concurrent checks)


def setup_slot(q, scratch, repo):
    global SLOT, CASES, BIN
    BIN = os.path.join(scratch, "bin")
    k = q.get()
    d = os.path.join(scratch, "s%d" % k)
    os.makedirs(d, exist_ok=True)
    copy_tree(repo, os.path.join(d, "repo"), ["target", ".git"])
    for h in ("harness", "harness_arr"):
        copy_tree(os.path.join(ROOT, h), os.path.join(d, h), ["target"])
        ct = os.path.join(d, h, "Cargo.toml")
        s = open(ct).read().replace('path = "/repo"', 'path = "%s"' % os.path.join(d, "repo"))
        open(ct, "w").write(s)
        cc = os.path.join(d, h, ".cargo", "config.toml")
        s = open(cc).read().replace('target-dir = "%s"' % os.path.join(ROOT, h, "target"), 'target-dir = "%s"' % os.path.join(d, h, "target"))
        assert os.path.join(d, h, "target") in s
        open(cc, "w").write(s)
    sh(["cargo", "test", "--offline", "--lib", "--no-run"], os.path.join(d, "repo"))
    for h in ("harness", "harness_arr"):
        sh(["cargo", "build", "--release", "--offline"], os.path.join(d, h))
    SLOT = d
    CASES = json.load(open(os.path.join(scratch, "cases.json")))


def gen_text(src, outdir):
    os.makedirs(outdir, exist_ok=True)
    rc, out = sh([sys.executable, os.path.join(ROOT, "tools", "rs2lean.py"), "--src", src, "--out", outdir], cwd=ROOT)
    txt = ""
    for n in ("Bi.lean", "Mul.lean"):
        fp = os.path.join(outdir, n)
        if os.path.exists(fp):
            txt += open(fp).read()
    return rc, txt


def run_mutant(m):
    try:
        return run_mutant_(m)
    except Exception as e:   # noqa: BLE001 -- one broken mutant must not end the sweep
        return {"file": m["file"], "line": m["line"], "old": m["old"], "new": m["new"], "outcome": "sweep_error", "note": repr(e)[:300]}


def run_mutant_(m):
    d = SLOT
    repo = os.path.join(d, "repo")
    fp = os.path.join(repo, m["file"])
    orig = open(fp).read()
    lines = orig.split("\n")
    lines[m["line"] - 1] = m["newline"]
    res = {k: m[k] for k in ("file", "line", "old", "new")}
    t0 = time.time()
    try:
        open(fp, "w").write("\n".join(lines))
        rc, out = sh(["cargo", "test", "--offline", "--lib"], repo)
        if rc != 0:
            if "test result: FAILED" in out or "failed" in out and "test result" in out:
                res["outcome"] = "killed_by_tests"
            elif rc == 124:
                res["outcome"] = "killed_by_tests"; res["note"] = "test timeout"
            else:
                res["outcome"] = "stillborn"
            return res
        arr = m["file"].startswith("src/multi_array")
        hs = ["harness"] + (["harness_arr"] if arr or True else [])
        for h in hs:
            rc, out = sh(["cargo", "build", "--release", "--offline"], os.path.join(d, h))
            if rc != 0:
                res["outcome"] = "harness_build_fails"; res["note"] = out[-300:]
                return res
        finds, _ = R.load_known()
        by = {}
        for prop in PROPS:
            spec = importlib.import_module("vlib.props." + prop)
            isarr = hasattr(spec, "HBIN")
            hb = os.path.join(d, "harness_arr/target/release/slarr") if isarr else os.path.join(d, "harness/target/release/slharness")
            cs = CASES[prop]
            try:
                drv = os.path.join(BIN, "slvarr" if isarr else "slvmodel")
                rs = R.run_cases(prop, [c[0] for c in cs], "mut%d" % os.getpid(), hb, drv)
            except RuntimeError as e:
                by[prop] = "input:driver-error"
                continue
            for r, c in zip(rs, cs):
                r["meta"] = c[1]
            cls = [CHK.classify(r) for r in rs]
            kinds = set()
            for r, c in zip(rs, cls):
                if c in ("oracle_fail", "impl_crash", "harness_problem", "corr_broken"):
                    if CHK.known_match(prop, r, finds):
                        continue
                    kinds.add("corr" if c == "corr_broken" else "input")
            try:
                if hasattr(spec, "cross") and spec.cross(rs):
                    kinds.add("input")
            except Exception as e:  # a cross relation that cannot be evaluated (outputs malformed) counts as seen
                kinds.add("input")
            if kinds:
                by[prop] = "input" if "input" in kinds else "corr"
        res["by_property"] = by
        if any(v.startswith("input") for v in by.values()):
            res["outcome"] = "input"
        elif by:
            res["outcome"] = "corr"
        else:
            rc, txt = gen_text(os.path.join(repo, "src"), os.path.join(d, "gen"))
            base = open(os.path.join(os.path.dirname(d), "gen_base.txt")).read()
            res["outcome"] = "tie" if (txt != base) else "silent"
        return res
    finally:
        open(fp, "w").write(orig)
        res["wall_s"] = round(time.time() - t0, 1)


def main():
    ap = argparse.ArgumentParser()
    ap.add_argument("--repo", default="/repo")
    ap.add_argument("--scratch", default="/tmp/mut")
    ap.add_argument("--slots", type=int, default=10)
    ap.add_argument("--sample", type=int, default=0, help="0 = all mutants")
    ap.add_argument("--seed", type=int, default=1)
    ap.add_argument("--files", default="")
    ap.add_argument("--out", default=os.path.join(ROOT, "work", "mutsweep.jsonl"))
    ap.add_argument("--keep", action="store_true")
    ap.add_argument("--bin", default="", help="directory holding slvmodel and slvarr (default: lean/.lake/build/bin)")
    a = ap.parse_args()
    muts = enumerate_mutants(a.repo)
    if a.files:
        muts = [m for m in muts if any(m["file"].endswith(f) for f in a.files.split(","))]
    rng = random.Random(a.seed)
    if a.sample and a.sample < len(muts):
        muts = rng.sample(muts, a.sample)
    done = set()
    if os.path.exists(a.out):
        for ln in open(a.out):
            r = json.loads(ln)
            done.add((r["file"], r["line"], r["new"]))
    muts = [m for m in muts if (m["file"], m["line"], m["new"]) not in done]
    print("mutants to run: %d (already done: %d)" % (len(muts), len(done)), flush=True)
    os.makedirs(a.scratch, exist_ok=True)
    # cases: quick tier, fixed seed, corpus first (as `check` does)
    cases = {}
    for prop in PROPS:
        spec = importlib.import_module("vlib.props." + prop)
        cs = []
        cp = os.path.join(ROOT, "gen", "corpus", prop + ".txt")
        if os.path.exists(cp):
            cs += [(ln.strip(), None) for ln in open(cp) if ln.strip() and not ln.startswith("#")]
        for g in spec.cases(random.Random(20260930), "quick"):
            cs.append((g[0], g[1]) if isinstance(g, tuple) else (g, None))
        cases[prop] = cs
    json.dump(cases, open(os.path.join(a.scratch, "cases.json"), "w"))
    rc, base = gen_text(os.path.join(a.repo, "src"), os.path.join(a.scratch, "gen_base"))
    open(os.path.join(a.scratch, "gen_base.txt"), "w").write(base)
    os.makedirs(os.path.join(a.scratch, "bin"), exist_ok=True)
    for b in ("slvmodel", "slvarr"):
        shutil.copy(os.path.join(a.bin or os.path.join(R.LEAN, ".lake", "build", "bin"), b), os.path.join(a.scratch, "bin", b))
    q = mp.Queue()
    for k in range(a.slots):
        q.put(k)
    t0 = time.time()
    cnt = collections.Counter()
    with mp.Pool(a.slots, initializer=setup_slot, initargs=(q, a.scratch, a.repo)) as pool, open(a.out, "a") as fo:
        for i, r in enumerate(pool.imap_unordered(run_mutant, muts)):
            fo.write(json.dumps(r) + "\n"); fo.flush()
            cnt[r["outcome"]] += 1
            if (i + 1) % 20 == 0:
                print("%d/%d %s %.0fs" % (i + 1, len(muts), dict(cnt), time.time() - t0), flush=True)
    print("done", dict(cnt), "%.0fs" % (time.time() - t0))
    if not a.keep:
        shutil.rmtree(a.scratch, ignore_errors=True)


if __name__ == "__main__":
    main()
