#!/usr/bin/env python3
"""Fills `what_changed` / `needs_to_manifest` of /verif/seeded/*/meta.json (texts condensed from the seeding agents' notes.md)
and prints the table used in DESIGN.md."""
import json, os, glob

INFO = {
 "C01_A": ("is_in_range rewritten negatively (De Morgan) in approx_ext.rs: NaN counts as in range",
           "NaN as the binomial base rate (the only slot without a sum check): BOpinion::try_new(b,d,u,NaN) is accepted"),
 "C01_B": ("check_unit_interval(u) dropped from the multinomial check_simplex",
           "domain size >= 2, u < 0 with belief masses over-summing so that sum(b)+u = 1, e.g. b=[.75,.75], u=-.5"),
 "C02_A": ("the three Wgh vacuity arms of compute_base_rate deleted ('a vacuous operand drops out by itself')",
           "Wgh, BOTH operands exactly vacuous, two distinct base-rate vectors that differ: 0/0 = NaN entries"),
 "C02_B": ("per-entry ulps_eq shortcut replaced by |x-y| <= sqrt(eps)",
           "base-rate entries differing by a non-zero amount below sqrt(eps) (non-dyadic floats only): base rate no longer sums to 1"),
 "C03_A": ("two-dogmatic mean arm of compute_base_rate moved below the single-operand arms for ACm/ECm (now shadowed)",
           "ACm/ECm, both operands dogmatic, different base-rate objects with different values"),
 "C03_B": ("ECm maximises uncertainty against lhs.base_rate instead of the fused base rate (stale variable)",
           "ECm with different base rates, non-vacuous rhs and non-dogmatic lhs"),
 "C04_A": ("min_x b(y|x) in deduce_of filtered to x with positive base rate",
           "antecedent base rate with a zero at x0 whose conditional has the strictly smallest belief for every y, u_X > 0"),
 "C04_B": ("outer reduce(min) over y rewritten as an if-comparison (NaN-unaware)",
           "some y (not first) with zero belief under every positive-base-rate conditional -> 0/0 candidate clobbers or poisons the min"),
 "C05_A": ("min and max swapped in the irrelevance term of inverse",
           "|Y|=3, every conditional has an outcome with P(y|x)=0 (weight term 0) and an outcome possible under every x with unequal probabilities"),
 "C05_B": ("zero-likelihood column falls back to ax[x] instead of 1 (then multiplied by ax again)",
           "a zero column and a non-uniform base rate on X"),
 "C06_A": ("unlabelled product returns early with u=0 when ANY factor is dogmatic (|| instead of &&)",
           "one dogmatic factor with all masses positive on its support and one uncertain factor; labelled family unaffected"),
 "C06_B": ("labelled product: reduce(min) replaced by min_by(partial_cmp) (keeps a NaN in the first cell)",
           "first joint cell has zero base rate and zero numerator (a[0]=0 and b[0]=0 in a factor)"),
 "C07_A": ("'identical operands' fast path in compute_simlex returns lhs for every operator",
           "ACm/ECm fold of >= 3 opinions in which two value-equal operands meet (repeated opinion); pairwise laws still hold"),
 "C07_B": ("both-vacuous base-rate arm moved below the single-vacuous arms (unreachable)",
           "ACm/ECm/Wgh with both operands vacuous and base rates differing in value: fuse(x,y).a != fuse(y,x).a"),
 "C08_A": ("zero-sum guard of mbr removed",
           "only informative conditionals have base rate exactly 0 (mixed vacuous/informative table)"),
 "C08_B": ("deduce_with: unwrap_or_else(f) -> unwrap_or(f()) (fallback evaluated eagerly)",
           "visible only through a side-effecting fallback closure when the marginal base rate exists; values identical"),
 "C09_A": ("max_uncertainty: `return one` instead of yielding one for a state with P=0 and a=0",
           "non-vacuous opinion with a state where base rate and belief are both zero"),
 "C09_B": ("uncertainty_maximized rewritten in factored form with a zero-base-rate guard returning 0",
           "positive belief on a state whose base rate is zero"),
 "C10_A": ("Simplex::discount guard tests is_dogmatic instead of is_vacuous",
           "input uncertainty exactly 0 (only the first discount of a chain)"),
 "C10_B": ("trans_opp: disbelief computed as remainder and belief term b*bx + d*bx (two cooperating edits)",
           "distrust d > 0 and bx != dx; well-formedness, uncertainty and base rate stay correct"),
 "C11_A": ("inverse's all-zero column test replaced by q == 0 after summing",
           "an impossible joint value whose product beliefs are rounding residue (67 of 120000 zero-biased dyadic cases)"),
 "C11_B": ("one-sided 'first factor vacuous' shortcut in product2 (both families)",
           "first parent's inverted opinion vacuous for some y while the second's is not uncertainty-maximal (~0.5% of cases)"),
 "C12_A": ("comul early return when ax ~ 0 || ay ~ 0 (guard meant for both zero)",
           "exactly one base rate 0, that operand with u > 0, the other with d > 0"),
 "C12_B": ("mul: base-rate complements swapped in b, masked by u = 1 - b - d",
           "unequal base rates and bx*uy != by*ux; result stays well-formed and commutative"),
 "C13_A": ("Wgh base-rate shortcut arms also fire on a dogmatic operand",
           "weighted fusion with exactly one dogmatic operand, the other neither dogmatic nor vacuous, different base rates"),
 "C13_B": ("cfuse 'both vacuous' guard uses tolerance sqrt(eps)",
           "both operands nearly vacuous with 1-u <= sqrt(eps), different 1-u and different base rates (never on grids)"),
 "C14_A": ("Case III.B.2 denominator uses (1-a_x) instead of (1-a_y)",
           "inputs in III.B.2 with u_x > 0 and a_x != a_y; projection and base rate stay correct, only symmetries / masses break"),
 "C14_B": ("is_in_range loses its ulps tolerance",
           "results a few ulps below 0: ~0.01-0.02% of inputs on 1/16..1/64 grids, never on the 1/8 grid"),
 "C15_A": ("outer min over Y in deduce_of uses min_by(partial_cmp): keeps a NaN only when it is the FIRST element",
           "a 0/0 candidate at index 0 of Y (all conditionals have belief 0 on the first value of Y)"),
 "C15_B": ("max_uncertainty: break instead of skipping a zero base-rate entry",
           "a zero base-rate entry at an index smaller than the index attaining the minimum"),
 "C16_A": ("fuse_assign rewritten as in-place update: base rate computed from the already-fused simplex",
           "operands with different base rates, ACm/ECm/Wgh; equal base rates or bare-simplex rhs agree"),
 "C16_B": ("fuse(opinion, &Simplex): early return lhs.cloned() when the simplex is vacuous",
           "bare vacuous simplex with Avg or ECm"),
 "C17_A": ("MArr3::from_iter builds each slab with K1 and K2 swapped",
           "unlabelled rank-3 array with K1 != K2 built by from_fn/from_iter, index vs iteration"),
 "C17_B": ("labelled MArrD2::try_from keeps the LAST failing row's error",
           "failing cells in at least two different rows with distinguishable errors"),
 "C18_A": ("labelled rank-3 keys() decodes a flat position with stride D0*D1 instead of D1*D2",
           "labelled rank 3 with D0 != D2"),
 "C18_B": ("MultiRange stores inclusive bounds but the emptiness guard still tests > 0",
           "unlabelled shapes with a dimension equal to 1"),
 "C19_A": ("lower tolerance of the unit-interval check dropped",
           "results whose exact mass is 0 rounding a fraction of an ulp below 0 (trans_opp with decimal trust, product2 with a vacuous factor, rare deduce)"),
 "C19_B": ("unlabelled products: reduce(min) replaced by a NaN-unaware comparison",
           "first element of a factor has base rate 0 and cell [0..0] has numerator 0"),
 "C20_A": ("BOpinion::relative_eq passes (max_relative, epsilon) swapped for the uncertainty component",
           "epsilon != max_relative and a u-difference between the two criteria"),
 "C20_B": ("PartialEq for MArrD2 compares only the first D1::LEN rows",
           "tall labelled shapes (D0 > D1) with the differing cell in an ignored row"),
}

rows = []
for d in sorted(glob.glob("/verif/seeded/*/")):
    key = os.path.basename(d.rstrip("/"))
    mp = d + "meta.json"
    m = json.load(open(mp))
    if key in INFO:
        m["what_changed"], m["needs_to_manifest"] = INFO[key]
    json.dump(m, open(mp, "w"), indent=1)
    det = m.get("detected_with_input") or []
    det0 = m.get("detected_by") or []
    how = ("VIOLATION with failing input by " + ",".join(det)) if det else (("correspondence only by " + ",".join(det0)) if det0 else "MISSED")
    rows.append("| %s | %s | %s | %s |" % (key, m.get("what_changed", ""), m.get("needs_to_manifest", ""), how))
print("| variant | change | needs | caught by |\n|---|---|---|---|")
print("\n".join(rows))
