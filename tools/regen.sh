#!/bin/sh
# Regenerate the Lean text derived from the Rust sources of the crate (current working tree).
#   regen.sh [SRC_DIR [OUT_DIR]]        defaults: /repo/src  /verif/lean/SLV/Gen
# Writes OUT_DIR/Bi.lean and OUT_DIR/Mul.lean.  Exit status:
#   0  both files were (re)generated            -> then build:  cd /verif/lean && lake build SLV.Gen.BiTie SLV.Gen.MulTie
#   2  the translator met Rust syntax outside its subset (message `rs2lean: <file>: fn <name>: unsupported ..`
#      on stderr); NOTHING is written in that case, so the caller must treat the tie as broken and must not
#      fall back on the stale generated files.
set -eu
SRC=${1:-/repo/src}
OUT=${2:-/verif/lean/SLV/Gen}
HERE=$(cd "$(dirname "$0")" && pwd)
exec python3 "$HERE/rs2lean.py" --src "$SRC" --out "$OUT"
