#!/bin/sh
# Regenerate the Lean text derived from the Rust sources of the crate (current working tree).
#   regen.sh [SRC_DIR [OUT_DIR]]        defaults: /repo/src  /verif/lean/SLV/Gen
# Writes OUT_DIR/Bi.lean and OUT_DIR/Mul.lean; then build:  cd /verif/lean && lake build SLV.Gen.BiTie SLV.Gen.MulTie
# Exit status:
#   0  both files (re)generated, every function translated.
#   3  both files written, WITH HOLES: for every function F that could not be translated (Rust syntax outside the
#      translator's subset, or F calls a generated function that is itself a hole, or a convention guard on an
#      accessor of F's source file failed -- then every function of that source file is a hole -- or a guard GROUP on
#      a src/multi_array helper that F relies on failed -- then exactly the functions naming that group; the same holds
#      for the comparison targets of property C20: the `default_*` / `type Epsilon` text pins of BOpinion's approximate
#      comparisons, and the markers eq_<Type> whose guard "`#[derive(.. PartialEq ..)]` still there, no hand-written impl" /
#      "`fn eq` is `self.inner == other.inner`" failed) the file contains
#      the comment `-- UNTRANSLATABLE <file> fn <F>: <reason>` and NO definition of F, so exactly the tie theorem
#      gen_<F>_eq (and the ties whose proofs rewrite with it) fails in `lake build` with an unknown identifier;
#      all other functions are generated and tied as usual.  The generated text is also elaborated once with
#      `lake env lean` (--validate; verdict cached per text in ${TMPDIR:-/tmp}/rs2lean_validated.json, ~1 s for Bi.lean and
#      ~10 s for Mul.lean when the text is new): a definition that Lean rejects (ill-typed translator output) becomes
#      a hole as well, so the generated MODULES always compile.  One line per hole on stderr:
#         rs2lean: UNTRANSLATABLE <file> fn <F>: <reason>
#   2  at least one output file could not be written at all (a source file is missing / unreadable, or the item
#      scanner lost track of the file structure): `rs2lean: FATAL <Out.lean>: ..` on stderr; that file is left
#      untouched (STALE: treat the whole tie of that file as broken); the other file is still written.
set -eu
SRC=${1:-/repo/src}
OUT=${2:-/verif/lean/SLV/Gen}
HERE=$(cd "$(dirname "$0")" && pwd)
exec python3 "$HERE/rs2lean.py" --src "$SRC" --out "$OUT" --validate
